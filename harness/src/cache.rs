//! Stepped (mode A) traces of the whole sync cache: the two background workers are parked and the
//! harness is the scheduler. Client calls that can block on the processor run on helper threads.
use crate::policy::{drain_add_obs, obs_str, DetHasher};
use crate::rng::Rng;
use crate::{csv, Out};
use std::hash::{Hash, Hasher};
use std::sync::atomic::{AtomicU64, Ordering};
use std::sync::{Arc, Mutex};
use std::thread::JoinHandle;
use std::time::{Duration, Instant};
use stretto::verif::{self, Branch, CacheSnap, ItemDesc, Obs, ParkedPolicyWorker, ParkedProcessor, Step};
use stretto::{Cache, CacheBuilder, CacheCallback, CacheError, Coster, Item, KeyBuilder, UpdateValidator};

// ---- user-supplied pieces --------------------------------------------------------------------

/// keys are `u64`s: low 32 bits = index hash, high 32 bits = conflict hash
#[derive(Default, Clone)]
pub struct SplitKeyBuilder;

// A user-supplied piece doubles as a yield point: when a client thread has armed the gate, its
// next `hash_index` (which `insert`/`get`/`remove` call right after their closed-check) parks
// until the scheduler releases it.
thread_local! {
    static GATE_ARMED: std::cell::Cell<bool> = std::cell::Cell::new(false);
}
static GATE_PARKED: std::sync::atomic::AtomicBool = std::sync::atomic::AtomicBool::new(false);
static GATE_OPEN: std::sync::atomic::AtomicBool = std::sync::atomic::AtomicBool::new(false);

/// scheduler side, before spawning the client thread
pub fn gate_prepare() {
    GATE_PARKED.store(false, std::sync::atomic::Ordering::SeqCst);
    GATE_OPEN.store(false, std::sync::atomic::Ordering::SeqCst);
}

/// client side, first thing on the new thread
pub fn gate_arm() {
    GATE_ARMED.with(|g| g.set(true));
}

pub fn gate_parked() -> bool {
    GATE_PARKED.load(std::sync::atomic::Ordering::SeqCst)
}

pub fn gate_release() {
    GATE_OPEN.store(true, std::sync::atomic::Ordering::SeqCst);
}

fn gate_point() {
    if GATE_ARMED.with(|g| g.replace(false)) {
        GATE_PARKED.store(true, std::sync::atomic::Ordering::SeqCst);
        while !GATE_OPEN.load(std::sync::atomic::Ordering::SeqCst) {
            std::thread::sleep(Duration::from_micros(50));
        }
    }
}

#[derive(Default)]
struct Capture(u64);
impl Hasher for Capture {
    fn finish(&self) -> u64 {
        self.0
    }
    fn write(&mut self, bytes: &[u8]) {
        let mut b = [0u8; 8];
        let n = bytes.len().min(8);
        b[..n].copy_from_slice(&bytes[..n]);
        self.0 = u64::from_le_bytes(b);
    }
    fn write_u64(&mut self, i: u64) {
        self.0 = i;
    }
}

impl KeyBuilder for SplitKeyBuilder {
    type Key = u64;
    fn hash_index<Q>(&self, key: &Q) -> u64
    where
        Self::Key: core::borrow::Borrow<Q>,
        Q: Hash + Eq + ?Sized,
    {
        gate_point();
        let mut h = Capture::default();
        key.hash(&mut h);
        h.finish() & 0xffff_ffff
    }
    fn hash_conflict<Q>(&self, key: &Q) -> u64
    where
        Self::Key: core::borrow::Borrow<Q>,
        Q: Hash + Eq + ?Sized,
    {
        let mut h = Capture::default();
        key.hash(&mut h);
        h.finish() >> 32
    }
}

pub fn mk_key(index: u64, conflict: u64) -> u64 {
    (conflict << 32) | (index & 0xffff_ffff)
}

/// Coster: `mode 0` = always 0 (the default coster), `mode 1` = `(v % 7) + 1`
#[derive(Clone)]
pub struct TableCoster(pub u8);
impl TableCoster {
    pub fn value(&self, v: u64) -> i64 {
        match self.0 {
            0 => 0,
            _ => (v % 7) as i64 + 1,
        }
    }
}
impl Coster for TableCoster {
    type Value = u64;
    fn cost(&self, v: &u64) -> i64 {
        self.value(*v)
    }
}

/// validator modes: 0 always, 1 never, 2 new > old, 3 new and old have the same parity
#[derive(Clone)]
pub struct TableValidator(pub u8);

/// every `(prev, curr)` pair the validator was consulted with since the last drain (C18: it must only ever
/// be shown the stored value of the very key being written)
pub static VALIDATOR_LOG: Mutex<Vec<(u64, u64)>> = Mutex::new(Vec::new());

pub fn validator_log_drain() -> String {
    let v: Vec<(u64, u64)> = std::mem::take(&mut *VALIDATOR_LOG.lock().unwrap());
    if v.is_empty() {
        "-".to_string()
    } else {
        v.iter().map(|(p, c)| format!("{}:{}", p, c)).collect::<Vec<_>>().join(",")
    }
}

impl UpdateValidator for TableValidator {
    type Value = u64;
    fn should_update(&self, prev: &u64, curr: &u64) -> bool {
        if self.0 != 4 {
            VALIDATOR_LOG.lock().unwrap().push((*prev, *curr));
        }
        match self.0 {
            0 => true,
            1 => false,
            2 => curr > prev,
            // live `validator_race`: value = version * 1000 + writer; only the next version may replace the
            // current one; writer 1's check is slow
            4 => {
                if curr % 1000 == 1 {
                    std::thread::sleep(std::time::Duration::from_millis(2));
                }
                curr / 1000 == prev / 1000 + 1
            }
            _ => curr % 2 == prev % 2,
        }
    }
}

#[derive(Clone, Debug)]
pub enum CbEv {
    Exit(u64),
    Evict(u64, u64, u64, i64),
    Reject(u64, u64, u64, i64),
}

/// `.1`: leave `on_reject` to the trait's default implementation (which hands the value to `on_exit`)
pub type CbHook = Box<dyn Fn(&CbEv) + Send + Sync>;

#[derive(Clone, Default)]
pub struct RecCallback(pub Arc<Mutex<Vec<CbEv>>>, pub bool, pub Arc<Mutex<Option<Arc<CbHook>>>>);

/// a callback type that does not override `on_reject`
struct DefaultReject(RecCallback);
impl CacheCallback for DefaultReject {
    type Value = u64;
    fn on_exit(&self, val: Option<u64>) {
        self.0.on_exit(val)
    }
    fn on_evict(&self, item: Item<u64>) {
        self.0.on_evict(item)
    }
}

impl CacheCallback for RecCallback {
    type Value = u64;
    fn on_exit(&self, val: Option<u64>) {
        if let Some(v) = val {
            self.record(CbEv::Exit(v));
        }
    }
    fn on_evict(&self, item: Item<u64>) {
        self.record(CbEv::Evict(item.index, item.conflict, item.val.unwrap_or(0), item.cost));
    }
    fn on_reject(&self, item: Item<u64>) {
        if self.1 {
            return DefaultReject(RecCallback(self.0.clone(), false, self.2.clone())).on_reject(item);
        }
        self.record(CbEv::Reject(item.index, item.conflict, item.val.unwrap_or(0), item.cost));
    }
}

impl RecCallback {
    /// run `hook` at the end of every callback (on the thread that delivers it): live scenarios use it to
    /// call back into the cache
    pub fn set_hook(&self, hook: CbHook) {
        *self.2.lock().unwrap() = Some(Arc::new(hook));
    }
    pub fn clear_hook(&self) {
        *self.2.lock().unwrap() = None;
    }
    fn record(&self, e: CbEv) {
        self.0.lock().unwrap().push(e.clone());
        let hook = self.2.lock().unwrap().clone();
        if let Some(h) = hook {
            // the hook's own calls deliver callbacks too (an update hands the old value to on_exit): one level only
            thread_local! { static IN_HOOK: std::cell::Cell<bool> = std::cell::Cell::new(false); }
            if !IN_HOOK.with(|f| f.replace(true)) {
                h(&e);
                IN_HOOK.with(|f| f.set(false));
            }
        }
    }
    pub fn drain_str(&self) -> String {
        let v: Vec<CbEv> = std::mem::take(&mut *self.0.lock().unwrap());
        if v.is_empty() {
            return "-".into();
        }
        v.iter()
            .map(|e| match e {
                CbEv::Exit(v) => format!("exit:{}", v),
                CbEv::Evict(k, c, v, cost) => format!("evict:{}:{}:{}:{}", k, c, v, cost),
                CbEv::Reject(k, c, v, cost) => format!("reject:{}:{}:{}:{}", k, c, v, cost),
            })
            .collect::<Vec<_>>()
            .join(",")
    }
}

pub type TCache = Cache<u64, u64, SplitKeyBuilder, TableCoster, TableValidator, RecCallback, DetHasher>;
pub type TProc = ParkedProcessor<u64, TableValidator, RecCallback, DetHasher>;

// ---- configuration ---------------------------------------------------------------------------

#[derive(Clone, Debug)]
pub struct Config {
    pub num_counters: usize,
    pub max_cost: i64,
    pub buf_size: usize,
    pub buf_items: usize,
    pub metrics: bool,
    pub ignore_internal: bool,
    pub coster: u8,
    pub validator: u8,
    /// call the type-changing setters (key builder, coster, validator, callback, hasher) after the
    /// plain ones instead of before: the builder must carry every field across them
    pub late_setters: bool,
    /// the callback leaves `on_reject` to the trait's default
    pub default_reject: bool,
}

impl Config {
    /// 0 = typed setters first, 1 = plain setters first, 2 = interleaved (decided by the two flags so that
    /// recorded scripts replay the same chain)
    pub fn setter_order(&self) -> u8 {
        match (self.late_setters, self.default_reject && self.coster == 1) {
            (_, true) => 2,
            (true, _) => 1,
            _ => 0,
        }
    }
    /// the chain of builder calls, for the builder model: `(new_counters, new_max, calls)`
    pub fn setters_str(&self, cleanup_ns: u64) -> (usize, i64, String) {
        let plain = |c: &Config| {
            vec![
                format!("bufsize:{}", c.buf_size),
                format!("items:{}", c.buf_items),
                format!("metrics:{}", c.metrics as u8),
                format!("ignore:{}", c.ignore_internal as u8),
                format!("cleanup:{}", cleanup_ns),
            ]
        };
        match self.setter_order() {
            1 => {
                let mut v = plain(self);
                v.extend(["hasher", "keybuilder", "coster", "validator", "callback"].iter().map(|s| s.to_string()));
                (self.num_counters, self.max_cost, v.join(";"))
            }
            0 => {
                let mut v: Vec<String> = ["keybuilder", "coster", "validator", "callback", "hasher"].iter().map(|s| s.to_string()).collect();
                v.extend(plain(self));
                (self.num_counters, self.max_cost, v.join(";"))
            }
            _ => (
                7,
                3,
                vec![
                    format!("counters:{}", self.num_counters),
                    format!("bufsize:{}", self.buf_size),
                    "hasher".to_string(),
                    format!("metrics:{}", self.metrics as u8),
                    "keybuilder".to_string(),
                    format!("max:{}", self.max_cost),
                    format!("ignore:{}", self.ignore_internal as u8),
                    "coster".to_string(),
                    format!("cleanup:{}", cleanup_ns),
                    "validator".to_string(),
                    format!("items:{}", self.buf_items),
                    "callback".to_string(),
                ]
                .join(";"),
            ),
        }
    }
}

/// the cleanup interval every stepped cache is configured with (ticks are driven by the harness)
pub const CFG_CLEANUP_SECS: u64 = 3600;

pub struct Rig {
    pub cache: TCache,
    pub proc_: TProc,
    pub worker: ParkedPolicyWorker<DetHasher>,
    pub cb: RecCallback,
    pub cfg: Config,
    pub coster: TableCoster,
    /// `(ignore_internal_cost, cleanup interval ns)` the spawned processor was given
    pub proc_cfg: Option<(bool, u64)>,
}

pub fn build(cfg: &Config) -> Result<Rig, CacheError> {
    verif::set_parked(true);
    let _ = verif::take_processor_config();
    let cb = RecCallback(Default::default(), cfg.default_reject, Default::default());
    // three chains of builder calls (what `setters_str` reports): plain then typed, typed then plain,
    // interleaved with num_counters / max_cost given again through their setters
    let r = match cfg.setter_order() {
        1 => CacheBuilder::<u64, u64>::new(cfg.num_counters, cfg.max_cost)
            .set_buffer_size(cfg.buf_size)
            .set_buffer_items(cfg.buf_items)
            .set_metrics(cfg.metrics)
            .set_ignore_internal_cost(cfg.ignore_internal)
            .set_cleanup_duration(Duration::from_secs(CFG_CLEANUP_SECS))
            .set_hasher(DetHasher::default())
            .set_key_builder(SplitKeyBuilder)
            .set_coster(TableCoster(cfg.coster))
            .set_update_validator(TableValidator(cfg.validator))
            .set_callback(cb.clone())
            .finalize(),
        0 => CacheBuilder::<u64, u64>::new(cfg.num_counters, cfg.max_cost)
            .set_key_builder(SplitKeyBuilder)
            .set_coster(TableCoster(cfg.coster))
            .set_update_validator(TableValidator(cfg.validator))
            .set_callback(cb.clone())
            .set_hasher(DetHasher::default())
            .set_buffer_size(cfg.buf_size)
            .set_buffer_items(cfg.buf_items)
            .set_metrics(cfg.metrics)
            .set_ignore_internal_cost(cfg.ignore_internal)
            .set_cleanup_duration(Duration::from_secs(CFG_CLEANUP_SECS))
            .finalize(),
        _ => CacheBuilder::<u64, u64>::new(7, 3)
            .set_num_counters(cfg.num_counters)
            .set_buffer_size(cfg.buf_size)
            .set_hasher(DetHasher::default())
            .set_metrics(cfg.metrics)
            .set_key_builder(SplitKeyBuilder)
            .set_max_cost(cfg.max_cost)
            .set_ignore_internal_cost(cfg.ignore_internal)
            .set_coster(TableCoster(cfg.coster))
            .set_cleanup_duration(Duration::from_secs(CFG_CLEANUP_SECS))
            .set_update_validator(TableValidator(cfg.validator))
            .set_buffer_items(cfg.buf_items)
            .set_callback(cb.clone())
            .finalize(),
    };
    let out = r.map(|cache| {
        let proc_ = TProc::take().expect("parked cache processor");
        let worker = ParkedPolicyWorker::<DetHasher>::take().expect("parked policy worker");
        Rig { cache, proc_, worker, cb, cfg: cfg.clone(), coster: TableCoster(cfg.coster), proc_cfg: verif::take_processor_config() }
    });
    verif::set_parked(false);
    out
}

// ---- printing ---------------------------------------------------------------------------------

pub fn snap_str(s: &CacheSnap) -> String {
    let items = if s.store.items.is_empty() {
        "-".to_string()
    } else {
        s.store.items.iter().map(|(k, c, v, d, cr)| format!("{}:{}:{}:{}:{}", k, c, v, d, cr)).collect::<Vec<_>>().join(",")
    };
    let buckets = if s.store.buckets.is_empty() {
        "-".to_string()
    } else {
        s.store
            .buckets
            .iter()
            .map(|(b, ks)| format!("{}/{}", b, if ks.is_empty() { "-".to_string() } else { ks.iter().map(|(k, c)| format!("{}:{}", k, c)).collect::<Vec<_>>().join(",") }))
            .collect::<Vec<_>>()
            .join(";")
    };
    let charges = if s.policy.charges.is_empty() {
        "-".to_string()
    } else {
        s.policy.charges.iter().map(|(k, c)| format!("{}:{}", k, c)).collect::<Vec<_>>().join(",")
    };
    let met = match &s.metrics {
        None => "-".to_string(),
        Some(m) => csv(&m[..]),
    };
    let life = match &s.life {
        None => "-".to_string(),
        Some((count, buckets)) => format!("{}/{}", count, csv(buckets)),
    };
    format!(
        "items={} buckets={} charges={} used={} max={} buf={} ring={} pq={} closed={} pclosed={} met={} life={} len={}",
        items, buckets, charges, s.policy.used, s.policy.max_cost, s.insert_buf_len, csv(&s.ring), s.policy_queue_len,
        s.closed as u8, s.policy_closed as u8, met, life, s.store.len
    )
}

impl Rig {
    pub fn snap(&self) -> String {
        match crate::catch(|| {
            let mut s = verif::cache_snapshot(&self.cache, |v| *v);
            // `len=` is what the public `Cache::len()` answers (the hook lists the entries themselves)
            s.store.len = self.cache.len();
            s
        }) {
            Some(s) => snap_str(&s),
            None => "SNAP-PANIC".to_string(),
        }
    }
    pub fn snapshot(&self) -> CacheSnap {
        verif::cache_snapshot(&self.cache, |v| *v)
    }
    pub fn init_line(&self, maxcost: i64) -> String {
        let (bufcap, pqcap) = verif::cache_queue_caps(&self.cache);
        let (eff_counters, eff_ring) = verif::cache_effective_sizes(&self.cache);
        let snap = self.snapshot();
        let eff = format!(
            " eff_ignore={} eff_cleanup={} cfgcleanup={} eff_counters={} eff_ringcap={} eff_metrics={} cfgmax={} defrej={} new_counters={} new_max={} setters={}",
            self.proc_cfg.map_or(self.cfg.ignore_internal as u8, |p| p.0 as u8),
            self.proc_cfg.map_or(CFG_CLEANUP_SECS * 1_000_000_000, |p| p.1),
            CFG_CLEANUP_SECS * 1_000_000_000,
            eff_counters,
            eff_ring,
            snap.metrics.is_some() as u8,
            self.cfg.max_cost,
            self.cfg.default_reject as u8,
            self.cfg.setters_str(CFG_CLEANUP_SECS * 1_000_000_000).0,
            self.cfg.setters_str(CFG_CLEANUP_SECS * 1_000_000_000).1,
            self.cfg.setters_str(CFG_CLEANUP_SECS * 1_000_000_000).2
        );
        format!(
            "c.init itemsize={} ignore={} bufcap={} ringcap={} pqcap={} metrics={} max={} samples=5 validator={} coster={} counters={} cfgbuf={} late={}",
            verif::cache_item_size(&self.cache),
            self.cfg.ignore_internal as u8,
            bufcap.unwrap_or(0),
            self.cfg.buf_items,
            pqcap.map_or("inf".to_string(), |c| c.to_string()),
            self.cfg.metrics as u8,
            maxcost,
            self.cfg.validator,
            self.cfg.coster,
            self.cfg.num_counters,
            self.cfg.buf_size,
            self.cfg.late_setters as u8
        ) + &eff
    }
}

fn desc_str(d: &ItemDesc) -> String {
    match d {
        ItemDesc::New(k, c, cost, v, dd, cr) => format!("new:{}:{}:{}:{}:{}:{}", k, c, cost, v, dd, cr),
        ItemDesc::Update(k, cost, ext) => format!("update:{}:{}:{}", k, cost, ext),
        ItemDesc::Delete(k, c) => format!("delete:{}:{}", k, c),
        ItemDesc::Wait => "wait".to_string(),
    }
}

// ---- blocking client calls ----------------------------------------------------------------------

pub struct Blocked {
    pub id: u64,
    pub kind: &'static str,
    pub handle: JoinHandle<String>,
    /// kernel thread id of the helper (0 = unknown)
    pub tid: u64,
}

/// wait until a blocked helper has finished or has gone (back) to sleep for `grace_ms` without
/// consuming CPU time: a deadline alone would misjudge a helper that is slow to be scheduled
pub fn settled(b: &Blocked, grace_ms: u64) -> bool {
    let t0 = Instant::now();
    let mut asleep_since: Option<(Instant, u64)> = None;
    loop {
        if b.handle.is_finished() {
            return true;
        }
        match if b.tid == 0 { None } else { thread_stat(b.tid) } {
            Some(('S', ticks)) => match asleep_since {
                Some((since, tk)) if tk == ticks => {
                    if since.elapsed() > Duration::from_millis(grace_ms) {
                        return false;
                    }
                }
                _ => asleep_since = Some((Instant::now(), ticks)),
            },
            Some(_) => asleep_since = None,
            None => {
                if t0.elapsed() > Duration::from_millis(grace_ms * 20) {
                    return false;
                }
            }
        }
        if t0.elapsed() > Duration::from_secs(20) {
            return false;
        }
        std::thread::sleep(Duration::from_micros(200));
    }
}

/// wait until the thread finishes, or `ms` elapse
pub fn finished_within(h: &JoinHandle<String>, ms: u64) -> bool {
    let t0 = Instant::now();
    loop {
        if h.is_finished() {
            return true;
        }
        if t0.elapsed() > Duration::from_millis(ms) {
            return false;
        }
        std::thread::sleep(Duration::from_micros(200));
    }
}

/// scheduler state and CPU ticks of a thread of this process (from /proc), if it still exists
fn thread_stat(tid: u64) -> Option<(char, u64)> {
    let s = std::fs::read_to_string(format!("/proc/self/task/{}/stat", tid)).ok()?;
    let rest = &s[s.rfind(')')? + 2..];
    let f: Vec<&str> = rest.split_whitespace().collect();
    let state = f.first()?.chars().next()?;
    let ticks = f.get(11)?.parse::<u64>().ok()? + f.get(12)?.parse::<u64>().ok()?;
    Some((state, ticks))
}

/// Run a possibly blocking call on a helper thread. Returns Ok(result) if it returned, Err(handle)
/// if it is blocked. "Blocked" is decided from the helper thread's scheduler state, not from a
/// deadline alone: the call counts as blocked only once the thread has been asleep (state S, no CPU
/// time consumed) for the whole grace period, so a helper that is merely slow to be scheduled on a
/// loaded machine is waited for.
pub fn spawn_call<F>(f: F, grace_ms: u64) -> Result<String, (JoinHandle<String>, u64)>
where
    F: FnOnce() -> String + Send + 'static,
{
    let tid = Arc::new(AtomicU64::new(0));
    let tid2 = tid.clone();
    let h = std::thread::spawn(move || {
        let me = std::fs::read_link("/proc/thread-self")
            .ok()
            .and_then(|p| p.file_name().and_then(|n| n.to_str().map(|x| x.to_string())))
            .and_then(|n| n.parse::<u64>().ok())
            .unwrap_or(u64::MAX);
        tid2.store(me, Ordering::SeqCst);
        f()
    });
    let t0 = Instant::now();
    let mut asleep_since: Option<(Instant, u64)> = None;
    loop {
        if h.is_finished() {
            return Ok(h.join().unwrap_or_else(|_| "PANIC".to_string()));
        }
        let t = tid.load(Ordering::SeqCst);
        let stat = if t == 0 || t == u64::MAX { None } else { thread_stat(t) };
        match stat {
            Some(('S', ticks)) => match asleep_since {
                Some((since, tk)) if tk == ticks => {
                    if since.elapsed() > Duration::from_millis(grace_ms) {
                        return Err((h, t));
                    }
                }
                _ => asleep_since = Some((Instant::now(), ticks)),
            },
            _ => asleep_since = None,
        }
        // no /proc information: fall back to a generous deadline
        if t == u64::MAX && t0.elapsed() > Duration::from_millis(grace_ms * 20) {
            return Err((h, 0));
        }
        if t0.elapsed() > Duration::from_secs(20) {
            return Err((h, if t == u64::MAX { 0 } else { t }));
        }
        std::thread::sleep(Duration::from_micros(200));
    }
}

fn res_str<T>(r: Result<T, CacheError>) -> String {
    match r {
        Ok(_) => "ok".to_string(),
        Err(_) => "err".to_string(),
    }
}

// ---- the stepped scheduler ------------------------------------------------------------------------

pub struct Stepper<'a> {
    pub rig: Rig,
    pub out: &'a mut Out,
    pub now: u64,
    pub next_val: u64,
    pub next_id: u64,
    pub blocked: Vec<Blocked>,
    pub grace_ms: u64,
    /// an insert parked right after its closed-check: (call id, thread)
    /// `Some(capacity)`: inserts wait for room in the insert buffer (fit lives)
    pub room_first: Option<usize>,
    pub parked_insert: Option<(u64, JoinHandle<String>)>,
}

impl<'a> Stepper<'a> {
    pub fn new(rig: Rig, out: &'a mut Out, start_ns: u64) -> Self {
        verif::clock::set_manual(start_ns);
        verif::obs_enable(true);
        verif::obs_drain();
        Stepper { rig, out, now: start_ns, next_val: 1, next_id: 1, blocked: Vec::new(), grace_ms: 25, room_first: None, parked_insert: None }
    }

    pub fn emit(&mut self, act: &str, ans: &str) {
        let cbs = self.rig.cb.drain_str();
        let snap = self.rig.snap();
        self.out.line(&format!("{} | {} cbs={} vseen={} {}", act, ans, cbs, validator_log_drain(), snap));
    }

    pub fn clock(&mut self, advance_ns: u64) {
        self.now += advance_ns;
        verif::clock::set_manual(self.now);
        self.out.line(&format!("c.clock {}", self.now));
    }

    /// in a life whose premise is "the insert buffer does not overflow": make room first
    fn make_room(&mut self) {
        if let Some(cap) = self.room_first {
            for _ in 0..cap + 1 {
                if self.rig.proc_.pending().0 < cap || !self.proc_item() {
                    break;
                }
            }
        }
    }

    pub fn insert(&mut self, idx: u64, conf: u64, cost: i64, ttl_ns: u64, only: bool) -> bool {
        crate::watch::note("insert");
        self.make_room();
        let v = self.next_val;
        self.next_val += 1;
        let coster = self.rig.coster.value(v);
        let key = mk_key(idx, conf);
        // every entry point that means the same thing is used in turn
        let variant = v % 4;
        let r = crate::catch(|| {
            let c = &self.rig.cache;
            if only {
                if variant % 2 == 0 { c.try_insert_if_present(key, v, cost) } else { Ok(c.insert_if_present(key, v, cost)) }
            } else if ttl_ns == 0 {
                match variant {
                    0 => c.try_insert(key, v, cost),
                    1 => Ok(c.insert(key, v, cost)),
                    2 => c.try_insert_with_ttl(key, v, cost, Duration::ZERO),
                    _ => Ok(c.insert_with_ttl(key, v, cost, Duration::ZERO)),
                }
            } else if variant % 2 == 0 {
                c.try_insert_with_ttl(key, v, cost, Duration::from_nanos(ttl_ns))
            } else {
                Ok(c.insert_with_ttl(key, v, cost, Duration::from_nanos(ttl_ns)))
            }
        });
        let (ans, ret) = match r {
            Some(Ok(b)) => (format!("ret={}", b as u8), b),
            Some(Err(_)) => ("ret=err".to_string(), false),
            None => ("PANIC".to_string(), false),
        };
        self.emit(&format!("c.insert {} {} {} {} {} {} {}", idx, conf, v, cost, ttl_ns, coster, only as u8), &ans);
        ret
    }

    /// first half of an insert: the call passes its closed-check and parks before doing anything
    pub fn insert_begin(&mut self, idx: u64, conf: u64, cost: i64, ttl_ns: u64, only: bool) {
        crate::watch::note("insert_begin");
        if self.parked_insert.is_some() {
            return;
        }
        self.make_room();
        let v = self.next_val;
        self.next_val += 1;
        let id = self.next_id;
        self.next_id += 1;
        let coster = self.rig.coster.value(v);
        let key = mk_key(idx, conf);
        let c = self.rig.cache.clone();
        gate_prepare();
        let h = std::thread::spawn(move || {
            gate_arm();
            let r = crate::catch(|| {
                if only {
                    c.try_insert_if_present(key, v, cost)
                } else {
                    c.try_insert_with_ttl(key, v, cost, Duration::from_nanos(ttl_ns))
                }
            });
            match r {
                Some(Ok(b)) => format!("{}", b as u8),
                Some(Err(_)) => "err".to_string(),
                None => "PANIC".to_string(),
            }
        });
        // parked at the gate, or returned at once (closed)
        let t0 = Instant::now();
        while !gate_parked() && !h.is_finished() && t0.elapsed() < Duration::from_secs(5) {
            std::thread::sleep(Duration::from_micros(100));
        }
        let act = format!("c.insert.begin {} {} {} {} {} {} {} {}", id, idx, conf, v, cost, ttl_ns, coster, only as u8);
        if h.is_finished() {
            let r = h.join().unwrap_or_else(|_| "PANIC".to_string());
            self.emit(&act, &format!("ret={}", r));
        } else {
            self.emit(&act, "ret=parked");
            self.parked_insert = Some((id, h));
        }
    }

    /// second half: the parked insert goes on (store update, buffer send) and returns
    pub fn insert_finish(&mut self) {
        crate::watch::note("insert_finish");
        if let Some((id, h)) = self.parked_insert.take() {
            gate_release();
            let r = if finished_within(&h, 5000) { h.join().unwrap_or_else(|_| "PANIC".to_string()) } else { "HANG".to_string() };
            self.emit(&format!("c.insert.finish {}", id), &format!("ret={}", r));
        }
    }

    pub fn get(&mut self, idx: u64, conf: u64) {
        crate::watch::note("get");
        let key = mk_key(idx, conf);
        self.next_id += 1;
        let variant = self.next_id % 4;
        let r = crate::catch(|| match variant {
            0 => self.rig.cache.get(&key).map(|v| *v.value()),
            // through a short-lived clone of the handle
            1 => {
                let c2 = self.rig.cache.clone();
                let r = c2.get(&key).map(|v| v.read());
                drop(c2);
                r
            }
            2 => self.rig.cache.get(&key).map(|v| *v.as_ref()),
            _ => self.rig.cache.get(&key).map(|v| {
                let x = *v.value();
                v.release();
                x
            }),
        });
        let ans = match r {
            Some(Some(v)) => format!("ret={}", v),
            Some(None) => "ret=none".to_string(),
            None => "PANIC".to_string(),
        };
        self.emit(&format!("c.get {} {}", idx, conf), &ans);
    }

    /// a lookup whose `ValueRef` is kept while the clock moves on by `adv` ns: `ValueRef::ttl()` is read
    /// before and after (C03: the remaining time, never increasing, zero once the deadline has passed)
    pub fn get_held(&mut self, idx: u64, conf: u64, adv: u64) {
        crate::watch::note("get_held");
        let key = mk_key(idx, conf);
        let now = self.now;
        let r = crate::catch(|| {
            self.rig.cache.get(&key).map(|v| {
                let t0 = v.ttl();
                verif::clock::set_manual(now + adv);
                let t1 = v.ttl();
                (*v.value(), t0, t1)
            })
        });
        self.now += adv;
        verif::clock::set_manual(self.now);
        let show = |d: Duration| if d == Duration::MAX { "max".to_string() } else { d.as_nanos().to_string() };
        let ans = match r {
            Some(Some((v, t0, t1))) => format!("ret={} ttl0={} ttl1={}", v, show(t0), show(t1)),
            Some(None) => "ret=none ttl0=- ttl1=-".to_string(),
            None => "PANIC".to_string(),
        };
        self.emit(&format!("c.getheld {} {} {}", idx, conf, adv), &ans);
    }

    pub fn get_mut(&mut self, idx: u64, conf: u64) {
        crate::watch::note("get_mut");
        let key = mk_key(idx, conf);
        let v = self.next_val;
        self.next_val += 1;
        let r = crate::catch(|| {
            self.rig.cache.get_mut(&key).map(|mut r| match v % 3 {
                0 => {
                    let old = *r.value();
                    r.write(v);
                    old
                }
                1 => {
                    let old = r.clone_inner();
                    *r.value_mut() = v;
                    old
                }
                _ => {
                    let old = *r.value();
                    r.write_once(v);
                    old
                }
            })
        });
        let ans = match r {
            Some(Some(old)) => format!("ret={}", old),
            Some(None) => "ret=none".to_string(),
            None => "PANIC".to_string(),
        };
        self.emit(&format!("c.getmut {} {} {}", idx, conf, v), &ans);
    }

    /// `get_ttl` can deadlock against a queued writer on the pinned tree; run it with a watchdog
    pub fn get_ttl(&mut self, idx: u64, conf: u64) {
        crate::watch::note("get_ttl");
        let key = mk_key(idx, conf);
        let r = crate::catch(|| self.rig.cache.get_ttl(&key));
        let ans = match r {
            Some(Some(d)) if d == Duration::MAX => "ret=max".to_string(),
            Some(Some(d)) => format!("ret={}", d.as_nanos()),
            Some(None) => "ret=none".to_string(),
            None => "PANIC".to_string(),
        };
        self.emit(&format!("c.getttl {} {}", idx, conf), &ans);
    }

    /// remove: blocks (after the F12 repair) or errs (before it) when the buffer is full
    pub fn remove(&mut self, idx: u64, conf: u64) {
        crate::watch::note("remove");
        let key = mk_key(idx, conf);
        let id = self.next_id;
        self.next_id += 1;
        let c = self.rig.cache.clone();
        match spawn_call(move || crate::catch(|| res_str(c.try_remove(&key))).unwrap_or("PANIC".into()), self.grace_ms) {
            Ok(r) => self.emit(&format!("c.remove {} {} {}", idx, conf, id), &format!("ret={}", r)),
            Err((h, tid)) => {
                self.emit(&format!("c.remove {} {} {}", idx, conf, id), "ret=blocked");
                self.blocked.push(Blocked { id, kind: "remove", handle: h, tid });
            }
        }
    }

    pub fn wait(&mut self) {
        crate::watch::note("wait");
        let id = self.next_id;
        self.next_id += 1;
        let c = self.rig.cache.clone();
        match spawn_call(move || crate::catch(|| res_str(c.wait())).unwrap_or("PANIC".into()), self.grace_ms) {
            Ok(r) => self.emit(&format!("c.wait {}", id), &format!("ret={}", r)),
            Err((h, tid)) => {
                self.emit(&format!("c.wait {}", id), "ret=blocked");
                self.blocked.push(Blocked { id, kind: "wait", handle: h, tid });
            }
        }
    }

    pub fn clear(&mut self) {
        crate::watch::note("clear");
        let id = self.next_id;
        self.next_id += 1;
        let c = self.rig.cache.clone();
        match spawn_call(move || crate::catch(|| res_str(c.clear())).unwrap_or("PANIC".into()), self.grace_ms) {
            Ok(r) => self.emit(&format!("c.clear {}", id), &format!("ret={}", r)),
            Err((h, tid)) => {
                self.emit(&format!("c.clear {}", id), "ret=blocked");
                self.blocked.push(Blocked { id, kind: "clear", handle: h, tid });
            }
        }
    }

    pub fn close(&mut self) {
        crate::watch::note("close");
        let id = self.next_id;
        self.next_id += 1;
        let c = self.rig.cache.clone();
        match spawn_call(move || crate::catch(|| res_str(c.close())).unwrap_or("PANIC".into()), self.grace_ms) {
            Ok(r) => self.emit(&format!("c.close {}", id), &format!("ret={}", r)),
            Err((h, tid)) => {
                self.emit(&format!("c.close {}", id), "ret=blocked");
                self.blocked.push(Blocked { id, kind: "close", handle: h, tid });
            }
        }
    }

    pub fn max_cost(&mut self, mc: i64) {
        crate::watch::note("max_cost");
        self.rig.cache.update_max_cost(mc);
        self.emit(&format!("c.maxcost {}", mc), "ret=ok");
    }

    pub fn len(&mut self) {
        crate::watch::note("len");
        let n = self.rig.cache.len();
        self.emit("c.len", &format!("ret={}", n));
    }

    /// after a worker step: report every blocked call that has returned by now
    pub fn reap(&mut self, grace_ms: u64) {
        crate::watch::note("reap");
        let mut i = 0;
        while i < self.blocked.len() {
            if settled(&self.blocked[i], grace_ms.min(25)) {
                let b = self.blocked.remove(i);
                let r = b.handle.join().unwrap_or_else(|_| "PANIC".to_string());
                self.emit(&format!("c.ret {} {}", b.kind, b.id), &format!("ret={}", r));
            } else {
                i += 1;
            }
        }
    }

    pub fn proc_item(&mut self) -> bool {
        crate::watch::note("proc_item");
        verif::obs_drain();
        let r = crate::catch(|| self.rig.proc_.step(Branch::Insert, |v| *v));
        match r {
            Some(Step::Insert(d, ok)) => {
                let (inc, samples) = drain_add_obs();
                // a remover blocked on the full buffer completes its send as soon as a slot is free
                for b in self.blocked.iter().filter(|b| b.kind == "remove") {
                    settled(b, 25);
                }
                let inc = match (&d, inc) {
                    (_, Some(i)) => i,
                    (ItemDesc::New(k, ..), None) => {
                        match crate::catch(|| verif::cache_estimate(&self.rig.cache, *k)) {
                            Some(e) => e,
                            None => {
                                self.emit("p.item inc=0 obs=-", "PANIC");
                                return false;
                            }
                        }
                    }
                    _ => 0,
                };
                self.emit(
                    &format!("p.item inc={} obs={}", inc, obs_str(&samples)),
                    &format!("desc={} ok={}", desc_str(&d), ok as u8),
                );
                self.reap(if matches!(d, ItemDesc::Wait) { 200 } else { 1 });
                true
            }
            Some(Step::NotReady) => false,
            Some(Step::Exited) => false,
            Some(other) => {
                self.emit("p.item inc=0 obs=-", &format!("desc=unexpected:{:?}", other));
                false
            }
            None => {
                self.emit("p.item inc=0 obs=-", "PANIC");
                false
            }
        }
    }

    /// removers blocked on the full buffer race the cleaner's drain loop; settle them first so
    /// that stepped traces stay deterministic
    fn settle_blocked_removes(&mut self) {
        for _ in 0..10_000 {
            if !self.blocked.iter().any(|b| b.kind == "remove") {
                break;
            }
            if !self.proc_item() {
                break;
            }
        }
    }

    pub fn proc_clear(&mut self) -> bool {
        crate::watch::note("proc_clear");
        if self.rig.proc_.pending().1 == 0 {
            return false;
        }
        self.settle_blocked_removes();
        let r = crate::catch(|| self.rig.proc_.step(Branch::Clear, |v| *v));
        match r {
            Some(Step::Clear(ok)) => {
                self.emit("p.clear", &format!("ok={}", ok as u8));
                self.reap(200);
                true
            }
            Some(_) => false,
            None => {
                self.emit("p.clear", "PANIC");
                false
            }
        }
    }

    pub fn proc_tick(&mut self) {
        crate::watch::note("proc_tick");
        verif::obs_drain();
        let r = crate::catch(|| self.rig.proc_.step(Branch::Tick, |v| *v));
        let order: Vec<String> = verif::obs_drain()
            .into_iter()
            .filter_map(|o| match o {
                Obs::SweepKey { key, conflict } => Some(format!("{}:{}", key, conflict)),
                _ => None,
            })
            .collect();
        let order = if order.is_empty() { "-".to_string() } else { order.join(",") };
        match r {
            Some(Step::Tick(ok)) => self.emit(&format!("p.tick order={}", order), &format!("ok={}", ok as u8)),
            Some(Step::Exited) => {}
            Some(other) => self.emit(&format!("p.tick order={}", order), &format!("unexpected:{:?}", other)),
            None => self.emit(&format!("p.tick order={}", order), "PANIC"),
        }
    }

    /// the stop branch; only meaningful while a `close()` is blocked on the rendezvous
    pub fn proc_stop(&mut self, ms: u64) -> bool {
        crate::watch::note("proc_stop");
        self.settle_blocked_removes();
        let r = crate::catch(|| self.rig.proc_.step(Branch::Stop(ms), |v| *v));
        match r {
            Some(Step::Stopped) => {
                self.emit("p.stop", "ok=1");
                // the closer now goes on to policy.close(): serve the policy worker's stop
                let stopped = self.rig.worker.step_stop(Duration::from_millis(ms.max(10_000)));
                // the closer sets the policy's closed flag right after the rendezvous: let it finish
                for b in self.blocked.iter().filter(|b| b.kind == "close") {
                    settled(b, 25);
                }
                self.emit("w.stop", &format!("ok={}", stopped as u8));
                self.reap(300);
                true
            }
            Some(_) => false,
            None => {
                self.emit("p.stop", "PANIC");
                false
            }
        }
    }

    pub fn worker_items(&mut self) -> bool {
        crate::watch::note("worker_items");
        match crate::catch(|| self.rig.worker.step_items()) {
            Some(Some(batch)) => {
                self.emit(&format!("w.items {}", csv(&batch)), "ok=1");
                true
            }
            Some(None) => false,
            None => {
                self.emit("w.items -", "PANIC");
                false
            }
        }
    }

    /// run the processor until buffer and clear queue are empty (and serve a pending close)
    pub fn drain(&mut self) {
        crate::watch::note("drain");
        for _ in 0..100_000 {
            let (nbuf, nclear) = self.rig.proc_.pending();
            if nclear > 0 {
                self.proc_clear();
            } else if nbuf > 0 {
                self.proc_item();
            } else {
                break;
            }
        }
        while self.worker_items() {}
        // a blocked close() needs the stop rendezvous (and, should it stop the policy worker first, that one's)
        if self.blocked.iter().any(|b| b.kind == "close") {
            if !self.rig.worker.exited() && self.rig.worker.step_stop(Duration::from_millis(20)) {
                self.emit("w.stop", "ok=1");
                self.reap(50);
            }
            self.proc_stop(500);
        }
        self.reap(50);
    }

    /// end of life: everything blocked must have returned once the workers are drained
    pub fn finish(&mut self) {
        crate::watch::note("finish");
        self.insert_finish();
        self.drain();
        self.reap(300);
        // a closer may be waiting for the policy worker before it has asked the processor for anything (the
        // order of the steps inside close() is the implementation's business): serve whichever worker has
        // something to do until nobody makes progress any more, and only then call what is left a hang
        for _ in 0..4 {
            if self.blocked.is_empty() {
                break;
            }
            let mut progress = false;
            if !self.rig.worker.exited() && self.rig.worker.step_stop(Duration::from_millis(200)) {
                self.emit("w.stop", "ok=1");
                progress = true;
            }
            let before = self.blocked.len();
            self.drain();
            self.reap(300);
            if self.blocked.len() < before {
                progress = true;
            }
            if !progress {
                break;
            }
        }
        let left: Vec<Blocked> = std::mem::take(&mut self.blocked);
        for b in left {
            // a call still blocked now has nobody left to release it
            self.emit(&format!("c.ret {} {}", b.kind, b.id), "ret=HANG");
            // leak the thread: it can never return
            std::mem::forget(b.handle);
        }
        verif::obs_enable(false);
        verif::clock::set_real();
    }
}

// ---- generators -----------------------------------------------------------------------------------

pub const SEC: u64 = 1_000_000_000;

pub struct GenOpts {
    pub ops: usize,
    /// probability weights (out of 100) of protocol operations: clear, wait, close
    pub w_clear: u64,
    pub w_wait: u64,
    pub w_close: u64,
    pub w_ttl: u64,
    pub collisions: bool,
}

/// configuration sweep of C20: small and non-power-of-two counters, tiny and negative max_cost,
/// buffer size 1, buffer_items 0/1
pub fn sweep_config(rng: &mut Rng, i: usize) -> Config {
    Config {
        num_counters: 1 + (i % 70),
        max_cost: *rng.pick(&[1i64, 1, 2, 57, 100, 1000, -5]),
        buf_size: *rng.pick(&[1usize, 1, 2, 64]),
        buf_items: *rng.pick(&[0usize, 1, 2, 64]),
        metrics: rng.chance(1, 2),
        ignore_internal: rng.chance(1, 2),
        coster: rng.below(2) as u8,
        validator: 0,
        late_setters: rng.chance(1, 2),
        default_reject: rng.chance(1, 4),
    }
}

/// what `finalize()` says about a configuration
pub fn finalize_line(num_counters: usize, max_cost: i64, buf_size: usize) -> String {
    verif::set_parked(true);
    let r = CacheBuilder::<u64, u64>::new(num_counters, max_cost)
        .set_key_builder(SplitKeyBuilder)
        .set_hasher(DetHasher::default())
        .set_buffer_size(buf_size)
        .finalize();
    let ans = match &r {
        Ok(_) => "ok".to_string(),
        Err(CacheError::InvalidNumCounters) => "InvalidNumCounters".to_string(),
        Err(CacheError::InvalidMaxCost) => "InvalidMaxCost".to_string(),
        Err(CacheError::InvalidBufferSize) => "InvalidBufferSize".to_string(),
        Err(e) => format!("other:{}", e).replace(' ', "_"),
    };
    if r.is_ok() {
        let _ = ParkedProcessor::<u64, stretto::DefaultUpdateValidator<u64>, stretto::DefaultCacheCallback<u64>, DetHasher>::take();
        let _ = ParkedPolicyWorker::<DetHasher>::take();
    }
    verif::set_parked(false);
    format!("f.config counters={} max={} buf={} | ret={}", num_counters, max_cost, buf_size, ans)
}

pub fn random_config(rng: &mut Rng) -> Config {
    Config {
        num_counters: *rng.pick(&[16usize, 64, 256]),
        max_cost: *rng.pick(&[30i64, 100, 100, 400, 1000, 100000]),
        buf_size: *rng.pick(&[1usize, 2, 3, 8, 64]),
        buf_items: *rng.pick(&[0usize, 1, 2, 4, 64]),
        metrics: rng.chance(2, 3),
        ignore_internal: rng.chance(1, 2),
        coster: rng.below(2) as u8,
        validator: *rng.pick(&[0u8, 0, 0, 1, 2, 3]),
        late_setters: rng.chance(1, 2),
        default_reject: rng.chance(1, 4),
    }
}

/// one cache life with a random schedule of client calls, processor steps, ticks and clock moves
pub fn cache_life(out: &mut Out, rng: &mut Rng, cfg: &Config, g: &GenOpts) {
    let rig = match build(cfg) {
        Ok(r) => r,
        Err(e) => {
            out.line(&format!("# cache config rejected: {:?} {}", cfg, e));
            let ans = match e {
                CacheError::InvalidNumCounters => "InvalidNumCounters".to_string(),
                CacheError::InvalidMaxCost => "InvalidMaxCost".to_string(),
                CacheError::InvalidBufferSize => "InvalidBufferSize".to_string(),
                other => format!("other:{}", other).replace(' ', "_"),
            };
            out.line(&format!("f.config counters={} max={} buf={} | ret={}", cfg.num_counters, cfg.max_cost, cfg.buf_size, ans));
            return;
        }
    };
    out.line(&format!("# cache {:?}", cfg));
    let start = 1_700_000_000 * SEC + rng.below(SEC);
    let init = rig.init_line(cfg.max_cost);
    let mut s = Stepper::new(rig, out, start);
    s.out.line(&init);
    s.out.line(&format!("c.clock {}", start));
    let universe = rng.range(2, 10);
    // the key range starts at a different index hash in different lives: striped structures (the
    // metrics counters live in 25 stripes picked by `hash % 25`) must be exercised on every stripe
    // (and the 256 shards of the store picked by `index % 256`: ranges around 255/256, 511/512, large ones)
    let base = *rng.pick(&[0u64, 0, 20, 23, 45, 70, 250, 254, 506, 1020, 65_530, 4_294_967_280]);
    let item = if cfg.ignore_internal { 0 } else { verif::cache_item_size(&s.rig.cache) as i64 };
    let unit = ((cfg.max_cost - 0) / 6).max(1);
    let mut closed = false;
    // a "fit" life: whatever is asked for fits in max_cost together (every key has its own share of
    // the budget), so nothing may ever be refused, evicted or dropped for capacity (C04's premise)
    let share = cfg.max_cost / universe as i64 - item;
    let fit = share >= 1 && rng.chance(1, 3);
    let fine_clock = g.w_ttl >= 50 && rng.chance(1, 2);
    s.out.line(&format!("# life universe={} fit={} share={} fine_clock={}", universe, fit as u8, share, fine_clock as u8));
    if fit {
        s.room_first = Some(cfg.buf_size);
    }
    // conflict hashes of a life without forced collisions: all zero (what `TransparentKeyBuilder` yields) or
    // non-zero and different from key to key (what `DefaultKeyBuilder` yields): one conflict per index
    let conf_mode = rng.below(2);
    let cf = move |i: u64| if conf_mode == 0 { 0 } else { 1 + i % 5 };
    for _ in 0..g.ops {
        let idx = base + rng.below(universe);
        // without forced collisions every key of a life carries the same conflict hash: 0 (what
        // `TransparentKeyBuilder` yields) or non-zero (what `DefaultKeyBuilder` yields)
        let conf = if g.collisions { rng.range(1, 2) } else { cf(idx) };
        // an insert parked after its closed-check resumes after a few other steps
        if s.parked_insert.is_some() && rng.chance(1, 3) {
            s.insert_finish();
            continue;
        }
        if s.parked_insert.is_none() && rng.chance(1, 25) {
            let cost = if rng.chance(1, 2) && !fit { 0 } else { 1 };
            s.insert_begin(idx, conf, cost, 0, false);
            if rng.chance(1, 3) && !closed {
                // the interesting neighbour: a close() slipping in right here
                s.close();
                closed = true;
            }
            continue;
        }
        // while a close() is in flight, interleave its processor-side steps with client calls
        if s.blocked.iter().any(|b| b.kind == "close") && rng.chance(1, 2) {
            match rng.below(4) {
                0 => {
                    s.proc_clear();
                    continue;
                }
                1 => {
                    s.proc_stop(30);
                    continue;
                }
                2 => {
                    s.wait();
                    continue;
                }
                _ => {}
            }
        }
        let r = rng.below(100);
        // processor and worker steps take a share of the schedule
        if r < 22 {
            if !s.proc_item() && rng.chance(1, 3) {
                s.proc_tick();
            }
            continue;
        }
        if r < 25 {
            s.proc_clear();
            continue;
        }
        if r < 29 || (fine_clock && r < 40) {
            // coarse lives jump across second boundaries; fine lives creep so that a cleanup
            // falls between a bucket becoming due and the entries in it expiring
            let adv = if fine_clock {
                *rng.pick(&[10_000_000u64, 50_000_000, 100_000_000, 150_000_000, 250_000_000, 400_000_000])
            } else {
                *rng.pick(&[0u64, 1, 999, SEC / 2, SEC - 1, SEC, SEC + 1, 2 * SEC, 5 * SEC])
            };
            s.clock(adv);
            if fine_clock || rng.chance(2, 3) {
                s.proc_tick();
            }
            continue;
        }
        if r < 31 {
            s.worker_items();
            continue;
        }
        let r2 = rng.below(100);
        // churn pattern on one key: a remove racing the admission of the insert before it, then
        // the key is used again (C02, C04, C06, C08 scenarios that random picking rarely lines up)
        if !closed && rng.chance(1, 40) {
            let ttl = if rng.below(100) < g.w_ttl { 3600 * SEC } else { 0 };
            s.insert(idx, conf, 1, ttl, false);
            s.remove(idx, conf);
            if rng.chance(1, 2) {
                s.get(idx, conf);
            }
            s.drain();
            s.get(idx, conf);
            s.insert(idx, conf, 1, 0, false);
            s.drain();
            s.get(idx, conf);
            continue;
        }
        // a stale insert queued behind the Delete of a colliding key: `New a`, `Delete` of the other key
        // sharing the index, `New b` are buffered; `New a` is applied; the client updates the key in
        // place; the rest is applied. The update must stand (C02 "never rolled back", C06, C18).
        if !closed && g.collisions && conf != 0 && rng.chance(1, 25) {
            let other = if conf == 1 { 2 } else { 1 };
            s.drain();
            s.remove(idx, conf);
            s.remove(idx, other);
            s.drain();
            s.insert(idx, conf, 1, 0, false);
            s.remove(idx, other);
            s.insert(idx, conf, 1, 0, false);
            s.proc_item();
            s.insert(idx, conf, 1, 0, false);
            s.get(idx, conf);
            s.drain();
            s.get(idx, conf);
            continue;
        }
        // expiry window on one key: the deadline passes (or is one nanosecond away) and no cleanup
        // has run yet, then the key is looked up / written / removed (C03, C05, C08, C09 scenarios)
        if !closed && g.w_ttl > 0 && rng.chance(1, 30) {
            let ttl = *rng.pick(&[2u64, SEC / 2, SEC, SEC + 1]);
            s.insert(idx, conf, 1, ttl, false);
            s.drain();
            let adv = match rng.below(4) {
                0 => ttl - 1,
                1 => ttl,
                2 => ttl + 1,
                _ => ttl + SEC / 3,
            };
            s.clock(adv);
            for _ in 0..rng.range(1, 4) {
                match rng.below(7) {
                    0 => {
                        if rng.chance(1, 2) {
                            s.get(idx, conf)
                        } else {
                            s.get_held(idx, conf, *rng.pick(&[1u64, 2, SEC / 3, SEC]))
                        }
                    }
                    1 | 2 => s.get_mut(idx, conf),
                    3 => s.get_ttl(idx, conf),
                    4 => {
                        s.insert(idx, conf, 1, 0, true);
                    }
                    5 => s.remove(idx, conf),
                    _ => {
                        s.insert(idx, conf, 1, *rng.pick(&[0u64, SEC]), false);
                    }
                }
            }
            if rng.chance(1, 2) {
                s.proc_tick();
            }
            continue;
        }
        // rejection after a partial eviction: four residents fill the cache, three of them are popular,
        // a moderately popular newcomer needs the room of two: the unpopular one is evicted, then the
        // newcomer loses against a popular one and is rejected (C06, C07, C08 scenarios)
        if !closed && !fit && rng.chance(1, 50) && cfg.max_cost / 4 - item >= 1 {
            let each = cfg.max_cost / 4 - item;
            s.clear();
            s.drain();
            for i in 0..4u64 {
                s.insert(20 + i, if g.collisions { conf } else { cf(20 + i) }, each, 0, false);
                s.drain();
            }
            for i in 1..4u64 {
                for _ in 0..3 {
                    s.get(20 + i, if g.collisions { conf } else { cf(20 + i) });
                }
            }
            s.get(29, if g.collisions { conf } else { cf(29) });
            while s.worker_items() {}
            s.insert(29, if g.collisions { conf } else { cf(29) }, 2 * each + item, 0, false);
            s.drain();
            s.get(20, if g.collisions { conf } else { cf(20) });
            s.len();
            continue;
        }
        // stale expiry filing under a colliding key: A = (idx, conflict 1) gets a TTL and is removed again; B =
        // (idx, conflict 2) takes the index with a TTL that ends in the next second; the sweep runs when A's old
        // bucket is due, B has expired and B's own bucket is not due yet: nothing of A may be left in the
        // bucket, so the sweep must not touch B's charge (C05, C06, C18)
        if !closed && g.collisions && g.w_ttl > 0 && rng.chance(1, 20) {
            s.clear();
            s.drain();
            // to X.1 s
            let adv = (SEC - s.now % SEC) + SEC / 10;
            s.clock(adv);
            s.insert(idx, 1, 1, 3 * SEC / 10, false); // ends at X.4: filed under bucket X + 1
            s.drain();
            s.remove(idx, 1);
            s.drain();
            s.insert(idx, 2, 1, SEC + SEC / 10, false); // ends at (X + 1).2: filed under bucket X + 2
            s.drain();
            s.clock(SEC + SEC / 2); // (X + 1).6: bucket X + 1 is due, bucket X + 2 is not
            s.proc_tick();
            s.drain();
            s.len();
            s.get(idx, 2);
            s.clock(SEC);
            s.proc_tick();
            s.len();
            continue;
        }
        // an entry whose charge is exactly zero (cost 0, Coster value 0, internal cost ignored) expires, is swept,
        // and the key is used again: also a zero charge is released (C05, C06)
        if !closed && g.w_ttl > 0 && cfg.ignore_internal && cfg.coster == 0 && rng.chance(1, 25) {
            s.insert(idx, conf, 0, SEC / 2, false);
            s.drain();
            s.clock(2 * SEC);
            s.proc_tick();
            s.get(idx, conf);
            s.insert(idx, conf, 0, 0, false);
            s.drain();
            s.get(idx, conf);
            continue;
        }
        // many victims: a dozen small residents, then one entry that needs the room of most of them (the
        // eviction loop runs many iterations, its sample holds stale copies of keys it already evicted)
        if !closed && !fit && rng.chance(1, 50) && cfg.max_cost / 12 - item >= 1 {
            let each = cfg.max_cost / 12 - item;
            s.clear();
            s.drain();
            for i in 0..12u64 {
                s.insert(40 + i, if g.collisions { conf } else { cf(40 + i) }, each, 0, false);
                s.drain();
            }
            s.insert(60, if g.collisions { conf } else { cf(60) }, (8 * (each + item) - item).max(1), 0, false);
            s.drain();
            s.len();
            s.insert(61, if g.collisions { conf } else { cf(61) }, each, 0, false);
            s.drain();
            continue;
        }
        // fill to the brim (fit lives): one key's cost goes up and down more often than there is slack in
        // the budget, then every key of the life is written at its full share and read at quiescence: the
        // accounting must be exact to the unit, or a key that fits is evicted or refused (C01, C04, C06)
        if !closed && fit && !g.collisions && rng.chance(1, 25) {
            for _ in 0..universe + 2 {
                s.insert(idx, conf, share, 0, false);
                s.drain();
                s.insert(idx, conf, 1, 0, false);
                s.drain();
            }
            for i in 0..universe {
                s.insert(base + i, cf(base + i), share, 0, false);
                s.drain();
            }
            for i in 0..universe {
                s.get(base + i, cf(base + i));
            }
            s.len();
            continue;
        }
        // estimator after clear(): a key is looked up often, the lookups are applied, the cache is
        // cleared, and the key is inserted again: the estimator must be that of a fresh cache (C11, C13)
        if !closed && rng.chance(1, 60) {
            for _ in 0..rng.range(3, 6) {
                s.get(idx, conf);
            }
            while s.worker_items() {}
            s.clear();
            s.drain();
            s.insert(idx, conf, 1, 0, false);
            s.drain();
            continue;
        }
        // TTL switch on one key: a re-insert changes TTL <-> no TTL (or the cost), the old deadline
        // passes, and the key is looked up at quiescence (C03, C04, C05, C16 scenarios)
        if !closed && g.w_ttl > 0 && rng.chance(1, 40) {
            let ttls = [0u64, SEC / 2, SEC, 2 * SEC, 3600 * SEC];
            let a = *rng.pick(&ttls);
            let b = *rng.pick(&ttls);
            let top = if fit { share as u64 } else { 9 };
            let c1 = rng.range(1, top) as i64;
            let c2 = rng.range(1, top) as i64;
            s.insert(idx, conf, c1, a, false);
            s.drain();
            s.clock(*rng.pick(&[0u64, 1000, SEC / 4]));
            s.insert(idx, conf, c2, b, false);
            s.drain();
            s.get(idx, conf);
            s.clock(*rng.pick(&[SEC / 2, SEC, SEC + SEC / 2, 2 * SEC + 1]));
            s.get(idx, conf);
            s.get_ttl(idx, conf);
            s.proc_tick();
            s.get(idx, conf);
            continue;
        }
        if r2 < g.w_clear {
            s.clear();
        } else if r2 < g.w_clear + g.w_wait {
            s.wait();
        } else if r2 < g.w_clear + g.w_wait + g.w_close {
            s.close();
            closed = true;
        } else {
            match rng.below(20) {
                0..=7 => {
                    let cost = if fit {
                        match rng.below(4) {
                            0 => share,
                            1 => 1,
                            _ => rng.range(1, share as u64) as i64,
                        }
                    } else {
                        match rng.below(6) {
                            0 => 0,
                            1 => 1,
                            2 => unit,
                            3 => (cfg.max_cost - item).max(1),
                            4 => cfg.max_cost + 1,
                            _ => rng.range(1, (2 * unit) as u64) as i64,
                        }
                    };
                    let ttl = if rng.below(100) < g.w_ttl {
                        *rng.pick(&[1u64, SEC / 2, 700_000_000, SEC - 1, SEC, SEC + 1, SEC + SEC / 2, 2 * SEC, 3 * SEC + 7, 3600 * SEC])
                    } else {
                        0
                    };
                    s.insert(idx, conf, cost, ttl, false);
                }
                8 => {
                    let cost = if fit { rng.range(1, share as u64) as i64 } else { rng.range(0, unit as u64) as i64 };
                    s.insert(idx, conf, cost, 0, true);
                }
                9..=12 => s.get(idx, conf),
                13 => s.get_held(idx, conf, *rng.pick(&[0u64, 1, 1000, SEC / 2, 2 * SEC])),
                14 => s.get_mut(idx, conf),
                15 => s.get_ttl(idx, conf),
                16..=17 => s.remove(idx, conf),
                18 => {
                    if rng.chance(1, 4) && !fit {
                        let mc = *rng.pick(&[cfg.max_cost, cfg.max_cost / 2 + 1, cfg.max_cost * 2]);
                        s.max_cost(mc);
                    } else {
                        s.len();
                    }
                }
                _ => {
                    if rng.chance(1, 2) {
                        s.drain();
                    } else {
                        s.proc_item();
                    }
                }
            }
        }
        if closed && rng.chance(1, 3) {
            s.drain();
        }
    }
    s.finish();
    // drop order: cache handle first, workers after
}

// ---- script mode: re-execute the actions of a recorded trace against the implementation ----------

fn kv<'a>(toks: &'a [&'a str], k: &str) -> Option<&'a str> {
    toks.iter().find_map(|t| t.strip_prefix(&format!("{}=", k)[..]))
}

/// Re-run every action of `script` (a cache trace; answers after `|` are ignored) and print a
/// fresh trace. Lives are delimited by `c.init` lines.
pub fn replay_script(out: &mut Out, script: &str) {
    let mut st: Option<Stepper> = None;
    // `Stepper` borrows `out`; keep it simple by collecting lines per life
    let mut lives: Vec<Vec<String>> = Vec::new();
    for line in script.lines() {
        let line = line.trim();
        if line.is_empty() || line.starts_with('#') {
            continue;
        }
        let act = line.split(" | ").next().unwrap_or("").to_string();
        if act.starts_with("c.init") {
            lives.push(Vec::new());
        }
        if let Some(l) = lives.last_mut() {
            l.push(act);
        }
    }
    drop(st.take());
    for life in lives {
        let toks: Vec<&str> = life[0].split_whitespace().collect();
        let num = |k: &str, d: i64| kv(&toks, k).and_then(|v| v.parse::<i64>().ok()).unwrap_or(d);
        let cfg = Config {
            num_counters: num("counters", 64) as usize,
            max_cost: num("max", 100),
            buf_size: num("cfgbuf", num("bufcap", 4)) as usize,
            buf_items: num("ringcap", 64) as usize,
            metrics: num("metrics", 1) == 1,
            ignore_internal: num("ignore", 0) == 1,
            coster: num("coster", 0) as u8,
            validator: num("validator", 0) as u8,
            late_setters: num("late", 0) == 1,
            default_reject: num("defrej", 0) == 1,
        };
        let rig = match build(&cfg) {
            Ok(r) => r,
            Err(e) => {
                out.line(&format!("# cache config rejected: {:?} {}", cfg, e));
                continue;
            }
        };
        out.line(&format!("# cache {:?}", cfg));
        let init = rig.init_line(cfg.max_cost);
        let mut s = Stepper::new(rig, out, 0);
        s.out.line(&init);
        for act in &life[1..] {
            let t: Vec<&str> = act.split_whitespace().collect();
            let n = |i: usize| t.get(i).and_then(|v| v.parse::<u64>().ok()).unwrap_or(0);
            let ni = |i: usize| t.get(i).and_then(|v| v.parse::<i64>().ok()).unwrap_or(0);
            match t[0] {
                "c.clock" => {
                    let target = n(1);
                    let adv = target.saturating_sub(s.now);
                    if s.now == 0 {
                        s.now = 0;
                    }
                    s.clock(adv);
                }
                "c.insert" => {
                    // c.insert idx conf val cost ttl coster only   (val is re-issued by the stepper)
                    s.next_val = n(3);
                    s.insert(n(1), n(2), ni(4), n(5), n(7) == 1);
                }
                "c.insert.begin" => {
                    // c.insert.begin id idx conf val cost ttl coster only
                    s.next_id = n(1);
                    s.next_val = n(4);
                    s.insert_begin(n(2), n(3), ni(5), n(6), n(8) == 1);
                }
                "c.insert.finish" => s.insert_finish(),
                "c.get" => s.get(n(1), n(2)),
                "c.getmut" => {
                    s.next_val = n(3);
                    s.get_mut(n(1), n(2))
                }
                "c.getttl" => s.get_ttl(n(1), n(2)),
                "c.getheld" => s.get_held(n(1), n(2), n(3)),
                "c.remove" => {
                    s.next_id = n(3);
                    s.remove(n(1), n(2))
                }
                "c.wait" => {
                    s.next_id = n(1);
                    s.wait()
                }
                "c.clear" => {
                    s.next_id = n(1);
                    s.clear()
                }
                "c.close" => {
                    s.next_id = n(1);
                    s.close()
                }
                "c.maxcost" => s.max_cost(ni(1)),
                "c.len" => s.len(),
                "c.ret" => s.reap(300),
                "p.item" => {
                    s.proc_item();
                }
                "p.clear" => {
                    s.proc_clear();
                }
                "p.tick" => s.proc_tick(),
                "p.stop" => {
                    s.proc_stop(500);
                }
                "w.stop" => {}
                "w.items" => {
                    s.worker_items();
                }
                _ => {}
            }
        }
        s.finish();
    }
}
