//! Free-running invariant checks (live mode): several clients hammer a small cache through the public
//! API with no quiescence between calls — full insert buffer, evictions, rejections, updates racing the
//! processor — then the cache is left to quiesce and properties that must hold at *every* quiescent
//! point are evaluated on what the implementation itself reports: C01 (`used` = Σ charges; updates may
//! legitimately leave `used` above `max_cost`, so no bound is checked here),
//! C02 (a resident value was written under that key), C06 (resident = charged), C08 (every accepted
//! value is resident xor handed to exactly one callback xor overwritten through `get_mut`), C17
//! (conservation laws of the counters). Run against `Cache` (threads) and `AsyncCache` (tokio tasks).
//! These are implementation-vs-oracle tests: sound for every schedule, they never replace a theorem.
use crate::cache::{mk_key, CbEv, RecCallback, SplitKeyBuilder, TableValidator};
use crate::live::{mark_client_pub, LiveResult, SlowCoster, SlowWorkerHasher};
use crate::rng::Rng;
use std::collections::HashMap;
use std::sync::atomic::{AtomicU64, Ordering};
use std::sync::{Arc, Mutex};
use std::time::Duration;
use stretto::verif::CacheSnap;
use stretto::{AsyncCacheBuilder, CacheBuilder};

#[derive(Default)]
struct Journal {
    /// (value, index) of every write the cache accepted
    accepted: Vec<(u64, u64)>,
    /// values overwritten in place through `get_mut`
    overwritten: Vec<u64>,
}

const UNIVERSE: u64 = 12;

#[derive(Clone, Copy)]
enum Op {
    Insert(u64, i64),
    Iip(u64, i64),
    Remove(u64),
    Get(u64),
    GetMut(u64),
    Wait,
}

fn gen_ops(rng: &mut Rng, n: usize) -> Vec<Op> {
    (0..n)
        .map(|_| {
            let k = rng.below(UNIVERSE);
            match rng.below(20) {
                0..=9 => Op::Insert(k, rng.range(1, 8) as i64),
                10 => Op::Iip(k, rng.range(1, 8) as i64),
                11..=13 => Op::Remove(k),
                14..=16 => Op::Get(k),
                17..=18 => Op::GetMut(k),
                _ => Op::Wait,
            }
        })
        .collect()
}

/// the verdict at quiescence
fn judge(who: &str, snap: &CacheSnap, j: &Journal, cbs: &[CbEv]) -> Vec<(&'static str, String)> {
    let mut out = Vec::new();
    let resident: Vec<(u64, u64)> = snap.store.items.iter().map(|(k, _, v, _, _)| (*k, *v)).collect();
    let charged: Vec<u64> = snap.policy.charges.iter().map(|(k, _)| *k).collect();
    let sum: i64 = snap.policy.charges.iter().map(|(_, c)| *c).sum();
    if snap.policy.used != sum {
        out.push(("C01", format!("{}: used = {} but the charges sum to {}", who, snap.policy.used, sum)));
    }
    let mut rk: Vec<u64> = resident.iter().map(|(k, _)| *k).collect();
    rk.sort();
    let mut ck = charged.clone();
    ck.sort();
    if rk != ck {
        out.push(("C06", format!("{}: at quiescence the resident keys {:?} differ from the charged keys {:?}", who, rk, ck)));
    }
    let origin: HashMap<u64, u64> = j.accepted.iter().cloned().collect();
    for (k, v) in &resident {
        match origin.get(v) {
            Some(ok) if ok == k => {}
            Some(ok) => out.push(("C02", format!("{}: key {} holds value {} which was written under key {}", who, k, v, ok))),
            None => out.push(("C02", format!("{}: key {} holds value {} which no accepted write carried", who, k, v))),
        }
    }
    let mut places: HashMap<u64, u32> = HashMap::new();
    for (_, v) in &resident {
        *places.entry(*v).or_default() += 1;
    }
    for e in cbs {
        let v = match e {
            CbEv::Exit(v) => *v,
            CbEv::Evict(_, _, v, _) => *v,
            CbEv::Reject(_, _, v, _) => *v,
        };
        *places.entry(v).or_default() += 1;
    }
    for v in &j.overwritten {
        *places.entry(*v).or_default() += 1;
    }
    for (v, k) in &j.accepted {
        let n = places.get(v).cloned().unwrap_or(0);
        if n != 1 {
            out.push((
                "C08",
                format!("{}: value {} accepted for key {} is accounted {} times at quiescence (resident + callbacks + overwritten through get_mut)", who, v, k, n),
            ));
        }
    }
    if let Some(m) = snap.metrics {
        let keys = m[2].wrapping_sub(m[4]);
        if keys != charged.len() as u64 {
            out.push(("C17", format!("{}: keys_added - keys_evicted = {} but {} keys are charged", who, keys, charged.len())));
        }
        let cost = m[5].wrapping_sub(m[6]);
        if cost != snap.policy.used as u64 {
            out.push(("C17", format!("{}: cost_added - cost_evicted = {} but used = {}", who, cost, snap.policy.used)));
        }
    }
    out
}

fn summarize(scenario: &'static str, rounds: u64, findings: Vec<(&'static str, String)>, prop: &str) -> LiveResult {
    // a check reports the findings of its own property; the others are counted apart
    let mine: Vec<&(&str, String)> = findings.iter().filter(|(p, _)| *p == prop || prop == "all").collect();
    let detail = mine.first().map(|(p, m)| format!("[{}] {}", p, m)).unwrap_or_default();
    LiveResult { scenario, rounds, violations: mine.len() as u64, detail }
}

pub fn sync_invariants(rounds: u64, seed: u64, prop: &str) -> LiveResult {
    mark_client_pub();
    let mut rng = Rng::new(seed ^ 0x5eed);
    let mut findings = Vec::new();
    for r in 0..rounds {
        let cb = RecCallback::default();
        let c = CacheBuilder::<u64, u64>::new(64, *rng.pick(&[20i64, 40, 200]))
            .set_key_builder(SplitKeyBuilder)
            .set_coster(SlowCoster { micros: 0 })
            .set_update_validator(TableValidator(0))
            .set_callback(cb.clone())
            .set_hasher(SlowWorkerHasher { micros: *rng.pick(&[0u64, 30, 120]) })
            .set_buffer_size(*rng.pick(&[1usize, 2, 4, 64]))
            .set_buffer_items(*rng.pick(&[1usize, 4, 64]))
            .set_metrics(true)
            .set_ignore_internal_cost(true)
            .set_cleanup_duration(Duration::from_secs(3600))
            .finalize()
            .expect("cache");
        let journal = Arc::new(Mutex::new(Journal::default()));
        let next = Arc::new(AtomicU64::new(1));
        let mut hs = Vec::new();
        for _ in 0..3 {
            let ops = gen_ops(&mut rng, 60);
            let c = c.clone();
            let journal = journal.clone();
            let next = next.clone();
            hs.push(std::thread::spawn(move || {
                mark_client_pub();
                for op in ops {
                    match op {
                        Op::Insert(k, cost) => {
                            let v = next.fetch_add(1, Ordering::SeqCst);
                            if c.insert(mk_key(k, 0), v, cost) {
                                journal.lock().unwrap().accepted.push((v, k));
                            }
                        }
                        Op::Iip(k, cost) => {
                            let v = next.fetch_add(1, Ordering::SeqCst);
                            if c.insert_if_present(mk_key(k, 0), v, cost) {
                                journal.lock().unwrap().accepted.push((v, k));
                            }
                        }
                        Op::Remove(k) => c.remove(&mk_key(k, 0)),
                        Op::Get(k) => {
                            let _ = c.get(&mk_key(k, 0)).map(|x| *x.value());
                        }
                        Op::GetMut(k) => {
                            let v = next.fetch_add(1, Ordering::SeqCst);
                            if let Some(mut m) = c.get_mut(&mk_key(k, 0)) {
                                let old = *m.value();
                                m.write(v);
                                let mut j = journal.lock().unwrap();
                                j.overwritten.push(old);
                                j.accepted.push((v, k));
                            }
                        }
                        Op::Wait => {
                            let _ = c.wait();
                        }
                    }
                }
            }));
        }
        for h in hs {
            let _ = h.join();
        }
        // quiesce
        let mut quiet = false;
        for _ in 0..2000 {
            if c.wait().is_ok() && stretto::verif::cache_snapshot(&c, |v| *v).insert_buf_len == 0 {
                quiet = true;
                break;
            }
            std::thread::sleep(Duration::from_millis(1));
        }
        if !quiet {
            findings.push(("C10", format!("Cache round {}: the cache did not quiesce (wait() kept failing or the buffer never emptied)", r)));
        } else {
            let snap = stretto::verif::cache_snapshot(&c, |v| *v);
            let cbs = cb.0.lock().unwrap().clone();
            let j = journal.lock().unwrap();
            findings.extend(judge(&format!("Cache round {}", r), &snap, &j, &cbs));
        }
        let _ = c.close();
    }
    summarize("invariants", rounds, findings, prop)
}

pub fn async_invariants(rounds: u64, seed: u64, prop: &str) -> LiveResult {
    mark_client_pub();
    let mut rng = Rng::new(seed ^ 0xa5eed);
    let rt = tokio::runtime::Builder::new_multi_thread().worker_threads(4).build().expect("tokio");
    let mut findings = Vec::new();
    for r in 0..rounds {
        let max_cost = *rng.pick(&[20i64, 40, 200]);
        let hasher_us = *rng.pick(&[0u64, 30, 120]);
        let buf = *rng.pick(&[1usize, 2, 4, 64]);
        let items = *rng.pick(&[1usize, 4, 64]);
        let scripts: Vec<Vec<Op>> = (0..3).map(|_| gen_ops(&mut rng, 60)).collect();
        let f = rt.block_on(async move {
            let cb = RecCallback::default();
            let c = AsyncCacheBuilder::<u64, u64>::new(64, max_cost)
                .set_key_builder(SplitKeyBuilder)
                .set_coster(SlowCoster { micros: 0 })
                .set_update_validator(TableValidator(0))
                .set_callback(cb.clone())
                .set_hasher(SlowWorkerHasher { micros: hasher_us })
                .set_buffer_size(buf)
                .set_buffer_items(items)
                .set_metrics(true)
                .set_ignore_internal_cost(true)
                .set_cleanup_duration(Duration::from_secs(3600))
                .finalize(tokio::spawn)
                .expect("async cache");
            let journal = Arc::new(Mutex::new(Journal::default()));
            let next = Arc::new(AtomicU64::new(1));
            let mut hs = Vec::new();
            for ops in scripts {
                let c = c.clone();
                let journal = journal.clone();
                let next = next.clone();
                hs.push(tokio::spawn(async move {
                    for op in ops {
                        match op {
                            Op::Insert(k, cost) => {
                                let v = next.fetch_add(1, Ordering::SeqCst);
                                if c.insert(mk_key(k, 0), v, cost).await {
                                    journal.lock().unwrap().accepted.push((v, k));
                                }
                            }
                            Op::Iip(k, cost) => {
                                let v = next.fetch_add(1, Ordering::SeqCst);
                                if c.insert_if_present(mk_key(k, 0), v, cost).await {
                                    journal.lock().unwrap().accepted.push((v, k));
                                }
                            }
                            Op::Remove(k) => c.remove(&mk_key(k, 0)).await,
                            Op::Get(k) => {
                                let _ = c.get(&mk_key(k, 0)).await.map(|x| *x.value());
                            }
                            Op::GetMut(k) => {
                                let v = next.fetch_add(1, Ordering::SeqCst);
                                if let Some(mut m) = c.get_mut(&mk_key(k, 0)).await {
                                    let old = *m.value();
                                    m.write(v);
                                    let mut j = journal.lock().unwrap();
                                    j.overwritten.push(old);
                                    j.accepted.push((v, k));
                                }
                            }
                            Op::Wait => {
                                let _ = c.wait().await;
                            }
                        }
                    }
                }));
            }
            for h in hs {
                let _ = h.await;
            }
            let mut quiet = false;
            for _ in 0..2000 {
                if c.wait().await.is_ok() && stretto::verif::async_cache_snapshot(&c, |v| *v).insert_buf_len == 0 {
                    quiet = true;
                    break;
                }
                std::thread::sleep(Duration::from_millis(1));
            }
            let mut f = Vec::new();
            if !quiet {
                f.push(("C10", format!("AsyncCache round {}: the cache did not quiesce", r)));
            } else {
                let snap = stretto::verif::async_cache_snapshot(&c, |v| *v);
                let cbs = cb.0.lock().unwrap().clone();
                let j = journal.lock().unwrap();
                f.extend(judge(&format!("AsyncCache round {}", r), &snap, &j, &cbs));
            }
            let _ = c.close().await;
            f
        });
        findings.extend(f);
    }
    summarize("async_invariants", rounds, findings, prop)
}
