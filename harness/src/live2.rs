//! More live-mode scenarios (seeding round 6): races and glue that neither the stepped harness nor
//! the first set of live scenarios can schedule. Every oracle here is sound for every timing: it
//! speaks only about states reached after the calls in question have returned.
use crate::cache::{mk_key, CbEv, RecCallback, SplitKeyBuilder, TableValidator};
use crate::live::{mark_client_pub, LiveResult, SlowCoster, SlowWorkerHasher};
use std::sync::atomic::{AtomicBool, AtomicU64, Ordering};
use std::sync::Arc;
use std::time::{Duration, Instant};
use stretto::{AsyncCache, AsyncCacheBuilder, Cache, CacheBuilder};

type LCache = Cache<u64, u64, SplitKeyBuilder, SlowCoster, TableValidator, RecCallback, SlowWorkerHasher>;
type LACache = AsyncCache<u64, u64, SplitKeyBuilder, SlowCoster, TableValidator, RecCallback, SlowWorkerHasher>;

#[allow(clippy::too_many_arguments)]
fn build_sync(counters: usize, max_cost: i64, buf: usize, items: usize, cleanup: Duration, validator: u8, metrics: bool, cb: RecCallback) -> LCache {
    CacheBuilder::<u64, u64>::new(counters, max_cost)
        .set_key_builder(SplitKeyBuilder)
        .set_coster(SlowCoster { micros: 0 })
        .set_update_validator(TableValidator(validator))
        .set_callback(cb)
        .set_hasher(SlowWorkerHasher { micros: 0 })
        .set_buffer_size(buf)
        .set_buffer_items(items)
        .set_metrics(metrics)
        .set_ignore_internal_cost(true)
        .set_cleanup_duration(cleanup)
        .finalize()
        .expect("cache")
}

fn build_async(counters: usize, max_cost: i64, buf: usize, items: usize, cleanup: Duration, cb: RecCallback) -> LACache {
    AsyncCacheBuilder::<u64, u64>::new(counters, max_cost)
        .set_key_builder(SplitKeyBuilder)
        .set_coster(SlowCoster { micros: 0 })
        .set_update_validator(TableValidator(0))
        .set_callback(cb)
        .set_hasher(SlowWorkerHasher { micros: 0 })
        .set_buffer_size(buf)
        .set_buffer_items(items)
        .set_metrics(true)
        .set_ignore_internal_cost(true)
        .set_cleanup_duration(cleanup)
        .finalize(tokio::spawn)
        .expect("async cache")
}

fn note(violations: &mut u64, detail: &mut String, msg: String) {
    *violations += 1;
    if detail.is_empty() {
        *detail = msg;
    }
}

/// C02 / C04 / C10 / C11 / C19: `AsyncCache::clear()` on a multi-threaded executor. Once `clear().await`
/// has returned: (a) nothing inserted before it is retrievable and `len()` is 0; (b) a key inserted
/// afterwards, followed by `wait().await`, is retrievable (there is ample room). A large estimator and
/// many entries make the clearing itself take milliseconds.
pub fn async_clear_ack(rounds: u64, prop: &str) -> LiveResult {
    mark_client_pub();
    let rt = tokio::runtime::Builder::new_multi_thread().worker_threads(4).enable_time().build().expect("tokio");
    let mut violations = 0u64;
    let mut detail = String::new();
    let before = matches!(prop, "all" | "C02" | "C11" | "C19");
    let after = matches!(prop, "all" | "C04" | "C10" | "C19" | "C08");
    for r in 0..rounds {
        let bad = rt.block_on(async move {
            let c = build_async(1 << 22, 10_000_000, 8192, 64, Duration::from_secs(3600), RecCallback::default());
            let n = 20_000u64;
            for k in 0..n {
                let _ = c.insert(mk_key(k, 0), k, 1).await;
                if k % 4096 == 4095 {
                    let _ = c.wait().await;
                }
            }
            let _ = c.wait().await;
            let had = c.len();
            let cleared = c.clear().await.is_ok();
            // (a) straight after the call returned
            let len = c.len();
            let mut seen = Vec::new();
            for k in [255u64, 511, 1023, 19_967, 254, 0, n - 1] {
                if c.get(&mk_key(k, 0)).await.is_some() {
                    seen.push(k);
                }
            }
            // (b) keys inserted after the clear returned: a fresh one, and one that was resident before the
            // clear (last shard of the store), with new values
            let fresh = 1_000_000 + r;
            let ins = c.insert(mk_key(fresh, 0), fresh, 1).await;
            let ins_old = c.insert(mk_key(255, 0), 7_000_255, 1).await;
            let waited = c.wait().await.is_ok();
            tokio::time::sleep(Duration::from_millis(30)).await;
            let _ = c.wait().await;
            let got = c.get(&mk_key(fresh, 0)).await.map(|v| *v.value());
            let got_old = c.get(&mk_key(255, 0)).await.map(|v| *v.value());
            let _ = c.close().await;
            let mut msgs = Vec::new();
            if before && cleared && (len != 0 || !seen.is_empty()) {
                msgs.push(format!(
                    "AsyncCache (tokio multi-thread) round {}: {} entries resident, clear().await returned Ok; straight afterwards len() = {} and keys {:?} written before the clear are still returned",
                    r, had, len, seen
                ));
            }
            if after && cleared && ins && waited && got != Some(fresh) {
                msgs.push(format!(
                    "AsyncCache (tokio multi-thread) round {}: clear().await returned Ok, then insert({}) = true, wait().await = Ok, yet get({}) = {:?} in a cache with ample room: an insert issued after the clear was lost",
                    r, fresh, fresh, got
                ));
            }
            if after && cleared && ins_old && waited && got_old != Some(7_000_255) {
                msgs.push(format!(
                    "AsyncCache (tokio multi-thread) round {}: clear().await returned Ok, then insert(255, 7000255) = true (key 255 was resident before the clear), wait().await = Ok, yet get(255) = {:?} in a cache with ample room: an insert issued after the clear was lost",
                    r, got_old
                ));
            }
            msgs
        });
        for m in bad {
            note(&mut violations, &mut detail, m);
        }
    }
    LiveResult { scenario: "async_clear_ack", rounds, violations, detail }
}

/// C01 / C03 / C05 / C06: the periodic sweep of `Cache` with a stalled sweeper. 600 keys share one expiry
/// second. While their bucket is being swept, another thread holds the write guard (`get_mut`) of one of
/// them, so the sweeper stalls there; a third thread then refreshes the keys that have not been swept
/// yet with a one-hour TTL; then the guard is dropped. Afterwards, at quiescence:
/// every refreshed key is still retrievable (C03/C05: nothing unexpired is removed), every other key has
/// been reclaimed (C05: nothing expired is left behind, also not in the stalled shard), the resident
/// keys are exactly the charged ones (C06), and after 2 x max_cost further inserts of cost 1 the cache
/// holds at most max_cost entries (C01).
pub fn sweep_refresh_race(rounds: u64, prop: &str) -> LiveResult {
    mark_client_pub();
    let mut violations = 0u64;
    let mut detail = String::new();
    for r in 0..rounds {
        let cb = RecCallback::default();
        let max_cost = 1000i64;
        let c = build_sync(4096, max_cost, 4096, 64, Duration::from_millis(20), 0, true, cb.clone());
        // start shortly after a second boundary so that all deadlines fall into one second
        let ns = std::time::SystemTime::now().duration_since(std::time::UNIX_EPOCH).unwrap().subsec_nanos() as u64;
        if ns > 250_000_000 {
            std::thread::sleep(Duration::from_nanos(1_000_000_000 - ns + 10_000_000));
        }
        let n = 600u64;
        let held = 7 + (r % 5) * 256 % 256; // a key in shard 7
        for k in 0..n {
            let _ = c.insert_with_ttl(mk_key(k, 0), k, 1, Duration::from_millis(300));
        }
        let _ = c.wait();
        let t0 = Instant::now();
        let release = Arc::new(AtomicBool::new(false));
        let holding = Arc::new(AtomicBool::new(false));
        let holder = {
            let c = c.clone();
            let release = release.clone();
            let holding = holding.clone();
            std::thread::spawn(move || {
                let g = c.get_mut(&mk_key(held, 0));
                holding.store(true, Ordering::SeqCst);
                let t = Instant::now();
                while !release.load(Ordering::SeqCst) && t.elapsed() < Duration::from_secs(6) {
                    std::thread::sleep(Duration::from_millis(1));
                }
                drop(g);
            })
        };
        while !holding.load(Ordering::SeqCst) && t0.elapsed() < Duration::from_secs(2) {
            std::thread::yield_now();
        }
        // wait until the sweep of the bucket is under way (some on_evict seen) or surely over
        // (the callbacks of a sweep are delivered when it is over; the policy's eviction counter moves while
        // it runs. `len()` would block on the held shard.)
        let mut started = false;
        let m = c.metrics.clone();
        while t0.elapsed() < Duration::from_millis(2600) {
            if m.get_keys_evicted().unwrap_or(0) > 0 {
                started = true;
                break;
            }
            std::thread::sleep(Duration::from_micros(200));
        }
        // refresh whatever is still resident outside the stalled shard
        let mut refreshed = Vec::new();
        if started {
            std::thread::sleep(Duration::from_millis(3));
            for k in 0..n {
                if k % 256 == held % 256 {
                    continue;
                }
                if c.insert_with_ttl(mk_key(k, 0), k + 10_000, 1, Duration::from_secs(3600)) {
                    refreshed.push(k);
                }
            }
        }
        release.store(true, Ordering::SeqCst);
        let _ = holder.join();
        let _ = c.wait();
        std::thread::sleep(Duration::from_millis(1300));
        let _ = c.wait();
        // which refreshed keys really were updates of a resident entry (value replaced) is not known to the
        // client; what is known: a key whose insert returned true and that nobody removed is retrievable or
        // was handed to a callback
        let snap = stretto::verif::cache_snapshot(&c, |v| *v);
        let resident: std::collections::BTreeSet<u64> = snap.store.items.iter().map(|i| i.0).collect();
        let charged: std::collections::BTreeSet<u64> = snap.policy.charges.iter().map(|p| p.0).collect();
        // (a refreshed value handed to on_evict counts as lost: with 600 unit-cost entries under max_cost 1000
        // nothing is evicted for capacity, so only the sweep can have taken it)
        let called: std::collections::BTreeSet<u64> = cb
            .0
            .lock()
            .unwrap()
            .iter()
            .filter_map(|e| match e {
                CbEv::Exit(v) | CbEv::Reject(_, _, v, _) => Some(*v),
                CbEv::Evict(..) => None,
            })
            .collect();
        let lost: Vec<u64> = refreshed.iter().copied().filter(|k| !resident.contains(k) && !called.contains(&(k + 10_000))).collect();
        let stale: Vec<u64> = resident.iter().copied().filter(|k| snap.store.items.iter().any(|i| i.0 == *k && i.2 < 10_000)).collect();
        if matches!(prop, "all" | "C03" | "C05") && !lost.is_empty() {
            note(&mut violations, &mut detail, format!(
                "Cache round {}: {} keys were re-inserted with a one-hour TTL while the sweep of their old bucket was stalled; {} of them are no longer resident although nothing replaced, removed or refused them (e.g. {:?}): the sweep removed entries that had not expired",
                r, refreshed.len(), lost.len(), &lost[..lost.len().min(5)]
            ));
        }
        if matches!(prop, "all" | "C05") && !stale.is_empty() {
            note(&mut violations, &mut detail, format!(
                "Cache round {}: 1.3 s after the sweep of their bucket (one thread held the write guard of key {} meanwhile) {} entries whose 300 ms TTL ran out are still resident (e.g. {:?}): expired entries were not reclaimed",
                r, held, stale.len(), &stale[..stale.len().min(5)]
            ));
        }
        if matches!(prop, "all" | "C06") && resident != charged {
            let unch: Vec<u64> = resident.difference(&charged).copied().take(5).collect();
            let noent: Vec<u64> = charged.difference(&resident).copied().take(5).collect();
            note(&mut violations, &mut detail, format!(
                "Cache round {}: at quiescence after a sweep racing TTL refreshes, resident keys and charged keys differ: resident without charge {:?}…, charged without entry {:?}… ({} resident, {} charged)",
                r, unch, noent, resident.len(), charged.len()
            ));
        }
        if matches!(prop, "all" | "C01") {
            for k in 0..(2 * max_cost as u64) {
                let _ = c.insert(mk_key(100_000 + k, 0), k, 1);
                if k % 512 == 511 {
                    let _ = c.wait();
                }
            }
            let _ = c.wait();
            let len = c.len() as i64;
            if len > max_cost {
                note(&mut violations, &mut detail, format!(
                    "Cache round {}: max_cost = {}, every entry costs 1 (internal cost ignored); after a sweep racing TTL refreshes and {} further inserts the cache holds {} entries: the cost of the resident entries exceeds max_cost",
                    r, max_cost, 2 * max_cost, len
                ));
            }
        }
        let _ = c.close();
    }
    LiveResult { scenario: "sweep_refresh_race", rounds, violations, detail }
}

/// C11: two `clear()` calls in flight. Thread A clears a cache whose estimator is large (the clearing takes
/// a while); meanwhile thread B inserts a key, calls `clear()` and `wait()`. The key was inserted before
/// B's clear: once that clear and the wait have returned it must not be retrievable and `len()` is 0.
pub fn double_clear(rounds: u64) -> LiveResult {
    mark_client_pub();
    let mut violations = 0u64;
    let mut detail = String::new();
    for r in 0..rounds {
        let c = build_sync(1 << 22, 1_000_000, 4096, 64, Duration::from_secs(3600), 0, true, RecCallback::default());
        for k in 0..200u64 {
            let _ = c.insert(mk_key(k, 0), k, 1);
        }
        let _ = c.wait();
        let a = {
            let c = c.clone();
            std::thread::spawn(move || {
                let _ = c.clear();
            })
        };
        std::thread::sleep(Duration::from_micros(200 + (r % 6) * 700));
        let key = 5000 + r;
        let ins = c.insert(mk_key(key, 0), key, 1);
        let cleared = c.clear().is_ok();
        let waited = c.wait().is_ok();
        let got = c.get(&mk_key(key, 0)).map(|v| *v.value());
        let len = c.len();
        let _ = a.join();
        let _ = c.close();
        if ins && cleared && waited && (got.is_some() || len != 0) {
            note(&mut violations, &mut detail, format!(
                "Cache round {}: thread A is inside clear(); thread B: insert({}) = true, clear() = Ok, wait() = Ok; then get({}) = {:?} and len() = {}: an entry inserted before B's clear() survived it",
                r, key, key, got, len
            ));
        }
    }
    LiveResult { scenario: "double_clear", rounds, violations, detail }
}

/// C09: two writers racing on one resident key under a validator that only admits the next version
/// (`TableValidator(4)`: value = version * 1000 + writer; writer 1's check is slow). Both write version
/// v + 1. Exactly one replacement may happen: the value displaced through on_exit is the old one, once.
pub fn validator_race(rounds: u64) -> LiveResult {
    mark_client_pub();
    let mut violations = 0u64;
    let mut detail = String::new();
    for r in 0..rounds {
        let cb = RecCallback::default();
        let c = build_sync(256, 1_000_000, 256, 64, Duration::from_secs(3600), 4, false, cb.clone());
        let key = mk_key(9 + r % 3, 0);
        let v0 = 100_000u64; // version 100
        let _ = c.insert(key, v0, 1);
        let _ = c.wait();
        let _ = cb.drain_str();
        let start = Arc::new(AtomicU64::new(0));
        let hs: Vec<_> = (1..=2u64)
            .map(|w| {
                let c = c.clone();
                let start = start.clone();
                std::thread::spawn(move || {
                    start.fetch_add(1, Ordering::SeqCst);
                    while start.load(Ordering::SeqCst) < 2 {
                        std::hint::spin_loop();
                    }
                    if w == 2 {
                        std::thread::sleep(Duration::from_micros(150));
                    }
                    c.insert_with_ttl(key, 101_000 + w, 1, if w == 2 { Duration::ZERO } else { Duration::from_secs(3600) })
                })
            })
            .collect();
        let rets: Vec<bool> = hs.into_iter().map(|h| h.join().unwrap_or(false)).collect();
        let _ = c.wait();
        let exits: Vec<u64> = cb.0.lock().unwrap().iter().filter_map(|e| if let CbEv::Exit(v) = e { Some(*v) } else { None }).collect();
        let fin = c.get(&key).map(|v| *v.value());
        let _ = c.close();
        let replaced_new = exits.iter().filter(|v| **v / 1000 == 101).count();
        if replaced_new > 0 {
            note(&mut violations, &mut detail, format!(
                "Cache round {}: resident value {} (version 100); two threads write {} and {} (both version 101) under a validator that only lets version n+1 replace version n (inserts returned {:?}); on_exit received {:?}: a version-101 value was itself replaced by the other version-101 write, which the validator must veto; final value {:?}",
                r, v0, 101_001, 101_002, rets, exits, fin
            ));
        }
    }
    LiveResult { scenario: "validator_race", rounds, violations, detail }
}

/// C17: counters under contention. Eight client threads look up keys that all fall into one metrics stripe
/// (index hash = multiple of 25); at quiescence hits + misses equals the number of lookups made.
pub fn metrics_contention(rounds: u64) -> LiveResult {
    mark_client_pub();
    let mut violations = 0u64;
    let mut detail = String::new();
    for r in 0..rounds {
        let c = build_sync(256, 1_000_000, 4096, 64, Duration::from_secs(3600), 0, true, RecCallback::default());
        for k in 0..4u64 {
            let _ = c.insert(mk_key(k * 25, 0), k, 1);
        }
        let _ = c.wait();
        let threads = 8u64;
        // long enough that the eight threads overlap on real cores even on a loaded machine
        let per = 250_000u64;
        let gate = Arc::new(AtomicU64::new(0));
        let hs: Vec<_> = (0..threads)
            .map(|t| {
                let c = c.clone();
                let gate = gate.clone();
                std::thread::spawn(move || {
                    gate.fetch_add(1, Ordering::SeqCst);
                    let t0 = Instant::now();
                    while gate.load(Ordering::SeqCst) < threads && t0.elapsed() < Duration::from_secs(5) {
                        std::hint::spin_loop();
                    }
                    for i in 0..per {
                        let _ = c.get(&mk_key(((t + i) % 8) * 25, 0));
                    }
                })
            })
            .collect();
        for h in hs {
            let _ = h.join();
        }
        let _ = c.wait();
        let m = c.metrics.clone();
        let hits = m.get_hits().unwrap_or(0);
        let misses = m.get_misses().unwrap_or(0);
        let _ = c.close();
        if hits + misses != threads * per {
            note(&mut violations, &mut detail, format!(
                "Cache round {}: {} client threads made {} lookups each of keys in one metrics stripe; at quiescence hits = {} + misses = {} = {} != {} lookups",
                r, threads, per, hits, misses, hits + misses, threads * per
            ));
        }
    }
    LiveResult { scenario: "metrics_contention", rounds, violations, detail }
}

/// C20: concurrent lookups with small get buffers. Eight threads call `get` on one cache built with
/// buffer_items 0, 1, 2 or 64; no lookup may panic in the caller.
pub fn ring_contention(rounds: u64) -> LiveResult {
    mark_client_pub();
    let mut violations = 0u64;
    let mut detail = String::new();
    for r in 0..rounds {
        let items = [0usize, 1, 2, 64][(r % 4) as usize];
        let c = build_sync(256, 1_000_000, 4096, items, Duration::from_secs(3600), 0, true, RecCallback::default());
        let threads = 8u64;
        let per = 30_000u64;
        let gate = Arc::new(AtomicU64::new(0));
        let hs: Vec<_> = (0..threads)
            .map(|t| {
                let c = c.clone();
                let gate = gate.clone();
                std::thread::spawn(move || {
                    gate.fetch_add(1, Ordering::SeqCst);
                    let t0 = Instant::now();
                    while gate.load(Ordering::SeqCst) < threads && t0.elapsed() < Duration::from_secs(5) {
                        std::hint::spin_loop();
                    }
                    for i in 0..per {
                        let _ = c.get(&mk_key((t * 13 + i) % 97, 0));
                    }
                })
            })
            .collect();
        let panicked = hs.into_iter().map(|h| h.join()).filter(|r| r.is_err()).count();
        let closed = c.close().is_ok();
        if panicked > 0 {
            note(&mut violations, &mut detail, format!(
                "Cache built with buffer_items = {}: {} threads call get() concurrently ({} lookups each); {} of them panicked inside get() (close() afterwards Ok = {})",
                items, threads, per, panicked, closed
            ));
        }
    }
    LiveResult { scenario: "ring_contention", rounds, violations, detail }
}

/// C13 / C15: lookups recorded while the policy is busy. 20 000 residents of cost 1; a writer inserts one
/// entry as large as max_cost, so that the processor evicts everything inside one `policy.add` (holding the
/// policy's lock for a long time). Meanwhile the client looks one key up three times with buffer_items = 1
/// (every lookup is a batch). When the queue has drained and no batch was dropped (gets_dropped = 0,
/// gets_kept >= 3), the key's estimate is at least 3.
pub fn policy_busy_lookups(rounds: u64) -> LiveResult {
    mark_client_pub();
    let mut violations = 0u64;
    let mut detail = String::new();
    for r in 0..rounds {
        let n = 20_000i64;
        let c = build_sync(1 << 20, n, 32_768, 1, Duration::from_secs(3600), 0, true, RecCallback::default());
        for k in 0..n as u64 {
            let _ = c.insert(mk_key(k, 0), k, 1);
            if k % 8192 == 8191 {
                let _ = c.wait();
            }
        }
        let _ = c.wait();
        // let the policy worker catch up with nothing (no lookups so far)
        let m = c.metrics.clone();
        let kept0 = m.get_gets_kept().unwrap_or(0);
        let big = mk_key(900_000 + r, 0);
        let probe = mk_key(800_000 + r, 0);
        let w = {
            let c = c.clone();
            std::thread::spawn(move || {
                let _ = c.insert(big, 1, n);
                let _ = c.wait();
            })
        };
        let t0 = Instant::now();
        while m.get_keys_evicted().unwrap_or(0) == 0 && t0.elapsed() < Duration::from_secs(10) {
            std::hint::spin_loop();
        }
        for _ in 0..3 {
            let _ = c.get(&probe);
        }
        let _ = w.join();
        let _ = c.wait();
        // the worker has taken every queued batch
        let t1 = Instant::now();
        loop {
            let s = stretto::verif::cache_snapshot(&c, |v| *v);
            if s.policy_queue_len == 0 || t1.elapsed() > Duration::from_secs(5) {
                break;
            }
            std::thread::sleep(Duration::from_millis(2));
        }
        std::thread::sleep(Duration::from_millis(30));
        let kept = m.get_gets_kept().unwrap_or(0) - kept0;
        let dropped = m.get_gets_dropped().unwrap_or(0);
        let est = stretto::verif::cache_estimate(&c, 800_000 + r);
        let _ = c.close();
        if dropped == 0 && kept >= 3 && est < 3 {
            note(&mut violations, &mut detail, format!(
                "Cache round {} (buffer_items = 1, num_counters = 2^20): key {} was looked up 3 times while the processor was evicting {} entries inside one admission; gets_kept = {}, gets_dropped = 0, the policy's queue is empty, yet the key's estimate is {}: kept lookups never reached the estimator",
                r, 800_000 + r, n, kept, est
            ));
        }
    }
    LiveResult { scenario: "policy_busy_lookups", rounds, violations, detail }
}

/// The stalled-sweep scenario for `AsyncCache` (tokio multi-thread): as `sweep_refresh_race`, the holder
/// being a thread with its own small runtime. Judged: refreshed keys survive (C03/C05), nothing expired is
/// left (C05), resident = charged (C06), `len() <= max_cost` after refilling (C01).
pub fn async_sweep_refresh_race(rounds: u64, prop: &str) -> LiveResult {
    mark_client_pub();
    let rt = tokio::runtime::Builder::new_multi_thread().worker_threads(4).enable_time().build().expect("tokio");
    let mut violations = 0u64;
    let mut detail = String::new();
    for r in 0..rounds {
        let prop = prop.to_string();
        let msgs: Vec<String> = rt.block_on(async move {
            let cb = RecCallback::default();
            let max_cost = 1000i64;
            let c = build_async(4096, max_cost, 4096, 64, Duration::from_millis(20), cb.clone());
            let ns = std::time::SystemTime::now().duration_since(std::time::UNIX_EPOCH).unwrap().subsec_nanos() as u64;
            if ns > 250_000_000 {
                tokio::time::sleep(Duration::from_nanos(1_000_000_000 - ns + 10_000_000)).await;
            }
            let n = 600u64;
            let held = 7u64;
            for k in 0..n {
                let _ = c.insert_with_ttl(mk_key(k, 0), k, 1, Duration::from_millis(300)).await;
            }
            let _ = c.wait().await;
            let t0 = Instant::now();
            let release = Arc::new(AtomicBool::new(false));
            let holding = Arc::new(AtomicBool::new(false));
            let holder = {
                let c = c.clone();
                let release = release.clone();
                let holding = holding.clone();
                std::thread::spawn(move || {
                    let rt2 = tokio::runtime::Builder::new_current_thread().build().expect("rt2");
                    rt2.block_on(async move {
                        let g = c.get_mut(&mk_key(held, 0)).await;
                        holding.store(true, Ordering::SeqCst);
                        let t = Instant::now();
                        while !release.load(Ordering::SeqCst) && t.elapsed() < Duration::from_secs(6) {
                            std::thread::sleep(Duration::from_millis(1));
                        }
                        drop(g);
                    });
                })
            };
            while !holding.load(Ordering::SeqCst) && t0.elapsed() < Duration::from_secs(2) {
                tokio::task::yield_now().await;
            }
            let m = c.metrics.clone();
            let mut started = false;
            while t0.elapsed() < Duration::from_millis(2600) {
                if m.get_keys_evicted().unwrap_or(0) > 0 {
                    started = true;
                    break;
                }
                tokio::time::sleep(Duration::from_micros(200)).await;
            }
            let mut refreshed = Vec::new();
            if started {
                tokio::time::sleep(Duration::from_millis(3)).await;
                for k in 0..n {
                    if k % 256 == held % 256 {
                        continue;
                    }
                    if c.insert_with_ttl(mk_key(k, 0), k + 10_000, 1, Duration::from_secs(3600)).await {
                        refreshed.push(k);
                    }
                }
            }
            release.store(true, Ordering::SeqCst);
            let _ = tokio::task::spawn_blocking(move || holder.join()).await;
            let _ = c.wait().await;
            tokio::time::sleep(Duration::from_millis(1300)).await;
            let _ = c.wait().await;
            let snap = stretto::verif::async_cache_snapshot(&c, |v| *v);
            let resident: std::collections::BTreeSet<u64> = snap.store.items.iter().map(|i| i.0).collect();
            let charged: std::collections::BTreeSet<u64> = snap.policy.charges.iter().map(|p| p.0).collect();
            let called: std::collections::BTreeSet<u64> = cb
                .0
                .lock()
                .unwrap()
                .iter()
                .filter_map(|e| match e {
                    CbEv::Exit(v) | CbEv::Reject(_, _, v, _) => Some(*v),
                    CbEv::Evict(..) => None,
                })
                .collect();
            let lost: Vec<u64> = refreshed.iter().copied().filter(|k| !resident.contains(k) && !called.contains(&(k + 10_000))).collect();
            let stale: Vec<u64> = resident.iter().copied().filter(|k| snap.store.items.iter().any(|i| i.0 == *k && i.2 < 10_000)).collect();
            let mut msgs = Vec::new();
            if matches!(prop.as_str(), "all" | "C03" | "C05" | "C19") && !lost.is_empty() {
                msgs.push(format!(
                    "AsyncCache round {}: {} keys were re-inserted with a one-hour TTL while the sweep of their old bucket was stalled; {} of them are no longer resident although nothing replaced, removed or refused them (e.g. {:?}): the sweep removed entries that had not expired",
                    r, refreshed.len(), lost.len(), &lost[..lost.len().min(5)]
                ));
            }
            if matches!(prop.as_str(), "all" | "C05" | "C19") && !stale.is_empty() {
                msgs.push(format!(
                    "AsyncCache round {}: 1.3 s after the sweep of their bucket (a thread held the write guard of key {} meanwhile) {} entries whose 300 ms TTL ran out are still resident (e.g. {:?}): expired entries were not reclaimed",
                    r, held, stale.len(), &stale[..stale.len().min(5)]
                ));
            }
            if matches!(prop.as_str(), "all" | "C06" | "C19") && resident != charged {
                let unch: Vec<u64> = resident.difference(&charged).copied().take(5).collect();
                let noent: Vec<u64> = charged.difference(&resident).copied().take(5).collect();
                msgs.push(format!(
                    "AsyncCache round {}: at quiescence after a sweep racing TTL refreshes, resident keys and charged keys differ: resident without charge {:?}…, charged without entry {:?}… ({} resident, {} charged)",
                    r, unch, noent, resident.len(), charged.len()
                ));
            }
            if matches!(prop.as_str(), "all" | "C01") {
                for k in 0..(2 * max_cost as u64) {
                    let _ = c.insert(mk_key(100_000 + k, 0), k, 1).await;
                    if k % 512 == 511 {
                        let _ = c.wait().await;
                    }
                }
                let _ = c.wait().await;
                let len = c.len() as i64;
                if len > max_cost {
                    msgs.push(format!(
                        "AsyncCache round {}: max_cost = {}, every entry costs 1; after a sweep racing TTL refreshes and {} further inserts the cache holds {} entries",
                        r, max_cost, 2 * max_cost, len
                    ));
                }
            }
            let _ = c.close().await;
            msgs
        });
        for msg in msgs {
            note(&mut violations, &mut detail, msg);
        }
    }
    LiveResult { scenario: "async_sweep_refresh_race", rounds, violations, detail }
}

/// C02 / C04 / C18: caches keyed by every integer type `TransparentKeyBuilder` supports. A set of distinct
/// keys (boundary values, pairs that differ only in their high bits, negative values) is inserted with
/// distinct values into a cache with ample room; after `wait()` every key returns its own value, `len()` is
/// the number of keys, and the index handed to callbacks / used by the store is the key itself.
pub fn transparent_keys(_rounds: u64) -> LiveResult {
    use stretto::TransparentKeyBuilder;
    mark_client_pub();
    let mut violations = 0u64;
    let mut detail = String::new();
    macro_rules! check_type {
        ($t:ty, $keys:expr) => {{
            let keys: Vec<$t> = $keys;
            let c = CacheBuilder::<$t, u64>::new(1024, 1_000_000)
                .set_key_builder(TransparentKeyBuilder::<$t>::default())
                .set_ignore_internal_cost(true)
                .set_cleanup_duration(Duration::from_secs(3600))
                .finalize()
                .expect("cache");
            let mut accepted = Vec::new();
            for (i, k) in keys.iter().enumerate() {
                if c.insert(*k, 1000 + i as u64, 1) {
                    accepted.push((i, *k));
                }
                let _ = c.wait();
            }
            let mut wrong = Vec::new();
            for (i, k) in &accepted {
                let got = c.get(k).map(|v| *v.value());
                if got != Some(1000 + *i as u64) {
                    wrong.push(format!("get({:?}) = {:?}, inserted {}", k, got, 1000 + *i as u64));
                }
            }
            let len = c.len();
            let _ = c.close();
            if !wrong.is_empty() || len != accepted.len() {
                note(&mut violations, &mut detail, format!(
                    "Cache<{}, u64> with TransparentKeyBuilder, {} distinct keys {:?} inserted with distinct values into a cache with ample room (all inserts returned true): len() = {}; {}",
                    stringify!($t), accepted.len(), keys, len, wrong.join("; ")
                ));
            }
        }};
    }
    check_type!(u8, vec![0, 1, 127, 128, 255]);
    check_type!(u16, vec![0, 1, 255, 256, 0x8000, 0xffff]);
    check_type!(u32, vec![0, 1, 0xffff, 0x1_0000, 0x8000_0000, 0xffff_ffff, 0x1234_0005, 0x4321_0005]);
    check_type!(u64, vec![0, 1, 0xffff_ffff, 0x1_0000_0000, 0x7f3a_0000_1000, 0x7f3b_0000_1000, 1 << 63, u64::MAX, (5 << 58) | 5, (9 << 58) | 5]);
    check_type!(usize, vec![0, 1, 0xffff_ffff, 0x1_0000_0000, 0x7f3a_0000_1000, 0x7f3b_0000_1000, 1 << 63, usize::MAX, (3 << 32) | 7, (4 << 32) | 7]);
    check_type!(i8, vec![0, 1, -1, i8::MIN, i8::MAX, -128 + 5]);
    check_type!(i16, vec![0, 1, -1, i16::MIN, i16::MAX, 255, -255, 256]);
    check_type!(i32, vec![0, 1, -1, i32::MIN, i32::MAX, 0xffff, -0xffff, -2]);
    check_type!(i64, vec![0, 1, -1, i64::MIN, i64::MAX, 0xffff_ffff, -0xffff_ffff, 1 << 40, -(1 << 40)]);
    check_type!(isize, vec![0, 1, -1, isize::MIN, isize::MAX, 0x1_0000_0000, -0x1_0000_0000, (3 << 32) | 7, (4 << 32) | 7]);
    LiveResult { scenario: "transparent_keys", rounds: 10, violations, detail }
}

/// C09 / C11: `insert_if_present` racing the departure of its key. The Coster is slow on client threads and
/// the cost given is 0, so the call spends milliseconds between its presence check and the store update;
/// meanwhile another thread removes the key (even rounds) or clears the cache (odd rounds). Whatever the
/// interleaving, `insert_if_present` never creates an entry: once both calls have returned and the cache is
/// quiescent, the key is absent (nothing else ever inserts it again).
pub fn iip_race(rounds: u64, prop: &str) -> LiveResult {
    mark_client_pub();
    let mut violations = 0u64;
    let mut detail = String::new();
    for r in 0..rounds {
        let by_clear = r % 2 == 1;
        if (by_clear && prop == "C09" && r % 4 == 3) || (!by_clear && prop == "C11") {
            // C11 judges the clear variant only
            if !by_clear && prop == "C11" {
                continue;
            }
        }
        let c: LCache = CacheBuilder::<u64, u64>::new(256, 1_000_000)
            .set_key_builder(SplitKeyBuilder)
            .set_coster(SlowCoster { micros: 4000 })
            .set_update_validator(TableValidator(0))
            .set_callback(RecCallback::default())
            .set_hasher(SlowWorkerHasher { micros: 0 })
            .set_buffer_size(256)
            .set_buffer_items(64)
            .set_metrics(true)
            .set_ignore_internal_cost(true)
            .set_cleanup_duration(Duration::from_secs(3600))
            .finalize()
            .expect("cache");
        let key = mk_key(40 + r % 7, 0);
        let _ = c.insert(key, 1, 1);
        let _ = c.wait();
        let present = c.get(&key).is_some();
        let a = {
            let c = c.clone();
            std::thread::spawn(move || c.insert_if_present(key, 20 + r, 0))
        };
        std::thread::sleep(Duration::from_micros(800 + (r % 5) * 400));
        let departed = if by_clear {
            c.clear().is_ok()
        } else {
            c.try_remove(&key).is_ok()
        };
        let ret = a.join().unwrap_or(false);
        let _ = c.wait();
        std::thread::sleep(Duration::from_millis(5));
        let _ = c.wait();
        let got = c.get(&key).map(|v| *v.value());
        let len = c.len();
        let _ = c.close();
        // the update may have been applied before the key departed (then it left with it); afterwards the key is absent
        if present && departed && (got.is_some() || len != 0) {
            note(&mut violations, &mut detail, format!(
                "Cache round {}: key resident; thread A calls insert_if_present(key, {}, 0) with a Coster that takes 4 ms; meanwhile thread B {} (Ok). A returned {}. At quiescence get(key) = {:?}, len() = {}: insert_if_present created an entry for a key that had left the cache",
                r, 20 + r, if by_clear { "calls clear()" } else { "removes the key" }, ret, got, len
            ));
        }
    }
    LiveResult { scenario: "iip_race", rounds, violations, detail }
}

/// C12 / C20 / C10: callbacks that call back into the cache they belong to. The processor's `on_reject` /
/// `on_evict` / `on_exit` insert (an update of a resident key and a fresh key), look up and read `len()` on
/// the same cache while the insert buffer is small and busy. Afterwards `wait()`, `clear()` and `close()` must
/// return and the workers must be gone; nothing may panic. (Removing from inside a callback blocks when the
/// buffer is full — `remove` waits for room and the processor is the one who makes room — so the callbacks
/// here do not remove.)
pub fn reentrant_callbacks(rounds: u64) -> LiveResult {
    mark_client_pub();
    let mut violations = 0u64;
    let mut detail = String::new();
    for r in 0..rounds {
        let cb = RecCallback::default();
        let c = build_sync(256, 10, 4, 4, Duration::from_secs(3600), 0, true, cb.clone());
        let hot = mk_key(7, 0);
        let _ = c.insert(hot, 1, 1);
        let _ = c.wait();
        {
            let c2 = c.clone();
            let n = Arc::new(AtomicU64::new(0));
            cb.set_hook(Box::new(move |_e| {
                let i = n.fetch_add(1, Ordering::SeqCst);
                // a bounded amount of re-entrant work (a callback that inserts for ever would keep the drain of a
                // clear() busy for ever by its own doing): an update of a resident key, a fresh key, a lookup, len()
                if i >= 120 {
                    return;
                }
                // more updates in a row than the insert buffer (4) holds: nobody drains it while the processor's
                // thread is in here, so an update that waited for room would wait for ever
                for j in 0..6u64 {
                    let _ = c2.insert(hot, 5000 + i * 8 + j, 1);
                }
                let _ = c2.insert(mk_key(100 + i % 50, 0), i, 1);
                let _ = c2.get(&hot).map(|v| *v.value());
                let _ = c2.len();
            }));
        }
        let done = Arc::new(AtomicU64::new(0));
        let worker = {
            let c = c.clone();
            let done = done.clone();
            std::thread::spawn(move || {
                // an oversize insert (rejected: callback runs), then a burst that fills the small buffer and evicts
                let _ = c.insert(mk_key(900, 0), 1, 100);
                // a second client keeps the small buffer full while the callbacks run
                let c3 = c.clone();
                let filler = std::thread::spawn(move || {
                    for k in 0..300u64 {
                        let _ = c3.insert(mk_key(1000 + k % 60, 0), k, 1);
                    }
                });
                for k in 0..200u64 {
                    let _ = c.insert(mk_key(200 + k % 80, 0), k, 1 + (k % 3) as i64);
                    if k % 50 == 49 {
                        let _ = c.insert(mk_key(900 + k, 0), 1, 100);
                    }
                }
                let _ = filler.join();
                done.store(1, Ordering::SeqCst);
                let _ = c.wait();
                done.store(2, Ordering::SeqCst);
                let _ = c.clear();
                done.store(3, Ordering::SeqCst);
                let _ = c.close();
                done.store(4, Ordering::SeqCst);
            })
        };
        let t0 = Instant::now();
        while done.load(Ordering::SeqCst) < 4 && t0.elapsed() < Duration::from_secs(15) {
            std::thread::sleep(Duration::from_millis(2));
        }
        let phase = done.load(Ordering::SeqCst);
        cb.clear_hook();
        if phase < 4 {
            let what = ["the burst of inserts", "wait()", "clear()", "close()"][phase as usize];
            note(&mut violations, &mut detail, format!(
                "Cache round {} (buffer size 4): the callbacks insert into / look up the cache they belong to (on the processor's thread); {} did not return within 15 s: the processor blocks on its own queue",
                r, what
            ));
            break;
        }
        if worker.join().is_err() {
            note(&mut violations, &mut detail, format!("Cache round {}: a client call panicked while callbacks were re-entering the cache", r));
        }
    }
    LiveResult { scenario: "reentrant_callbacks", rounds, violations, detail }
}

/// C11 / C04 / C06: a clear() that finds only Delete items in flight. Keys are inserted and applied, every
/// one of them is removed again without waiting (the store is empty, the removal items are still
/// queued), then the cache is cleared. After `clear()` and `wait()` have returned nothing may be charged
/// (the cleared cache is a fresh one), and the same keys, inserted again, are all admitted and resident:
/// their combined cost is a fraction of max_cost. Sound for every timing: whichever of the removal items
/// the processor applied before it took the clear request, the state after the clear is the empty one.
pub fn clear_after_removes(rounds: u64, prop: &str) -> LiveResult {
    let charges_judged = prop != "C04";
    mark_client_pub();
    let mut violations = 0u64;
    let mut detail = String::new();
    let n = 32u64;
    let judge = |who: &str, r: u64, used: i64, charged: usize, back: u64, len: usize, violations: &mut u64, detail: &mut String| {
        if charges_judged && (used != 0 || charged != 0) {
            note(violations, detail, format!(
                "{} round {}: {} keys inserted and applied, all removed, then clear() and wait() returned; the policy still charges {} keys, used = {}: the cleared cache is not a fresh one",
                who, r, n, charged, used
            ));
        } else if back != n || len != n as usize {
            note(violations, detail, format!(
                "{} round {}: {} keys inserted and applied, all removed, clear() and wait() returned, the same keys inserted again (combined cost {} of max_cost 1000) and wait() returned: only {} of them are retrievable, len() = {}",
                who, r, n, n, back, len
            ));
        }
    };
    for r in 0..rounds {
        // sync flavour
        {
            let c = build_sync(256, 1000, 4096, 64, Duration::from_secs(3600), 0, true, RecCallback::default());
            for k in 0..n {
                let _ = c.insert(mk_key(k, 0), k, 1);
            }
            let _ = c.wait();
            for k in 0..n {
                c.remove(&mk_key(k, 0));
            }
            let _ = c.clear();
            let _ = c.wait();
            let snap = stretto::verif::cache_snapshot(&c, |v| *v);
            let (used, charged) = (snap.policy.used, snap.policy.charges.len());
            for k in 0..n {
                let _ = c.insert(mk_key(k, 0), 100 + k, 1);
            }
            let _ = c.wait();
            let back = (0..n).filter(|k| c.get(&mk_key(*k, 0)).map(|v| *v.value()) == Some(100 + k)).count() as u64;
            let len = c.len();
            let _ = c.close();
            judge("Cache", r, used, charged, back, len, &mut violations, &mut detail);
        }
        // async flavour: current-thread runtime (the processor cannot run between the removes and the
        // clear) on even rounds, multi-thread runtime on odd ones
        let rt = if r % 2 == 0 {
            tokio::runtime::Builder::new_current_thread().enable_time().build().expect("tokio")
        } else {
            tokio::runtime::Builder::new_multi_thread().worker_threads(3).enable_time().build().expect("tokio")
        };
        let (used, charged, back, len) = rt.block_on(async move {
            let c = build_async(256, 1000, 4096, 64, Duration::from_secs(3600), RecCallback::default());
            for k in 0..n {
                let _ = c.insert(mk_key(k, 0), k, 1).await;
            }
            let _ = c.wait().await;
            for k in 0..n {
                c.remove(&mk_key(k, 0)).await;
            }
            let _ = c.clear().await;
            let _ = c.wait().await;
            let snap = stretto::verif::async_cache_snapshot(&c, |v| *v);
            let (used, charged) = (snap.policy.used, snap.policy.charges.len());
            for k in 0..n {
                let _ = c.insert(mk_key(k, 0), 100 + k, 1).await;
            }
            let _ = c.wait().await;
            let mut back = 0u64;
            for k in 0..n {
                if c.get(&mk_key(k, 0)).await.map(|v| *v.value()) == Some(100 + k) {
                    back += 1;
                }
            }
            let len = c.len();
            let _ = c.close().await;
            (used, charged, back, len)
        });
        judge(if r % 2 == 0 { "AsyncCache (tokio current-thread)" } else { "AsyncCache (tokio multi-thread)" }, r, used, charged, back, len, &mut violations, &mut detail);
    }
    LiveResult { scenario: "clear_after_removes", rounds, violations, detail }
}
