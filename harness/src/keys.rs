//! C18: key builders. Every value of the 8- and 16-bit integer types, boundary and random values of
//! the wider ones, through the real `TransparentKeyBuilder`; determinism and `String`/`&str`
//! agreement of the `DefaultKeyBuilder`.
use crate::rng::Rng;
use crate::Out;
use stretto::{DefaultKeyBuilder, KeyBuilder, TransparentKey, TransparentKeyBuilder};

fn line<T: TransparentKey + std::fmt::Display + Copy + Default>(out: &mut Out, ty: &str, x: T) {
    let kb = TransparentKeyBuilder::<T>::default();
    let (a, b) = kb.build_key(&x);
    let (a2, b2) = kb.build_key(&x);
    out.line(&format!("key ty={} x={} | idx={} conf={} again={}", ty, x, a, b, (a == a2 && b == b2) as u8));
}

pub fn keys_trace(out: &mut Out, rng: &mut Rng, random_per_type: usize) {
    for x in u8::MIN..=u8::MAX {
        line(out, "u8", x);
    }
    for x in i8::MIN..=i8::MAX {
        line(out, "i8", x);
    }
    for x in u16::MIN..=u16::MAX {
        line(out, "u16", x);
    }
    for x in i16::MIN..=i16::MAX {
        line(out, "i16", x);
    }
    for &x in &[0u32, 1, u32::MAX, u32::MAX - 1, 1 << 31] {
        line(out, "u32", x);
    }
    for &x in &[0i32, 1, -1, i32::MAX, i32::MIN, i32::MIN + 1] {
        line(out, "i32", x);
    }
    for &x in &[0u64, 1, u64::MAX, u64::MAX - 1, 1 << 63, (1 << 63) - 1] {
        line(out, "u64", x);
    }
    for &x in &[0i64, 1, -1, i64::MAX, i64::MIN, i64::MIN + 1] {
        line(out, "i64", x);
    }
    for &x in &[0usize, 1, usize::MAX, 1 << 63] {
        line(out, "usize", x);
    }
    for &x in &[0isize, -1, isize::MAX, isize::MIN] {
        line(out, "isize", x);
    }
    for _ in 0..random_per_type {
        line(out, "u32", rng.next() as u32);
        line(out, "i32", rng.next() as i32);
        line(out, "u64", rng.next());
        line(out, "i64", rng.next() as i64);
        line(out, "usize", rng.next() as usize);
        line(out, "isize", rng.next() as isize);
    }
    // the default builder: deterministic for the lifetime of the builder, String and &str agree
    let kb = DefaultKeyBuilder::<String>::default();
    for i in 0..200u64 {
        let s = format!("key-{}-{}", i, rng.next() % 1000);
        let a = kb.build_key(&s);
        let b = kb.build_key(&s);
        let c = kb.build_key::<str>(s.as_str());
        out.line(&format!("keystr len={} | same={} borrowed_same={} conflict_nonzero={}", s.len(), (a == b) as u8, (a == c) as u8, (a.1 != 0) as u8));
    }
}
