#!/usr/bin/env python3
"""Collect shrunk replay scripts for the monitor failures of a set of cache traces.
usage: collect_corpus.py <tag> <trace> <driver-output> [...]"""
import sys, os, re
sys.path.insert(0, '/verif/vlib')
import shrink
from concurrent.futures import ThreadPoolExecutor
T = '/verif/.build/target/debug/tracegen'; D = '/verif/lean/.lake/build/bin/smdriver'
tag = sys.argv[1]
pairs = list(zip(sys.argv[2::2], sys.argv[3::2]))
todo = {}
for tr, outp in pairs:
    for l in open(outp):
        if l.startswith('MONITOR-FAIL'):
            sig = shrink.signature(l.strip())
            if sig not in todo:
                todo[sig] = (tr, int(re.search(r'line=(\d+)', l).group(1)), l.strip())
def work(item):
    sig, (tr, ln, msg) = item
    try:
        r = shrink.shrink(T, D, tr, ln, msg, budget_s=20)
    except Exception as e:
        return sig, None, str(e)
    return sig, r, msg
with ThreadPoolExecutor(12) as ex:
    res = list(ex.map(work, todo.items()))
counts = {}
for sig, r, msg in res:
    if not r:
        print('FAILED', sig, msg); continue
    prop = re.search(r'property=(C\d+)', sig).group(1)
    counts[prop] = counts.get(prop, 0) + 1
    d = f'/verif/corpus/{prop}'; os.makedirs(d, exist_ok=True)
    path = f'{d}/{tag}-{counts[prop]}.script'
    fails = [m for m in r['driver'].splitlines() if m.startswith('MONITOR-FAIL') and f'property={prop}' in m]
    with open(path, 'w') as f:
        f.write(f'# property: {prop}\n# found on: {tag}\n# failure: {(fails or [msg])[0]}\n# replay: tracegen replay-cache --script <this file>\n')
        f.write('\n'.join(r['acts']) + '\n')
    print(path, len(r['acts']), 'shrunk' if r['shrunk'] else 'UNSHRUNK', (fails or [msg])[0][:160])
