#!/bin/bash
# confirm a seeded change in its scratch worktree: suite passes with it, demo fails with it, passes without it
id=$1; w=/tmp/seed/$id; o=/tmp/seed/$id-out
cd $w || exit 2
export CARGO_NET_OFFLINE=true
demo=$(ls tests/ 2>/dev/null | grep -i demo | head -1 | sed 's/\.rs$//')
{
echo "== diff stat"; git diff --stat -- src
echo "== suite with change (lib tests only)"; mv tests /tmp/seed/$id-tests-aside 2>/dev/null
timeout 900 cargo test --offline --lib 2>&1 | grep -E "^test result|FAILED|failed" | head -5
mv /tmp/seed/$id-tests-aside tests 2>/dev/null
echo "== full-feature build"; cargo build --offline --features full 2>&1 | grep -E "^error|Finished" | head -3
echo "== demo WITH change ($demo)"; timeout 900 cargo test --offline --test $demo 2>&1 | grep -E "^test result|panicked" | head -4
git diff -- src > /tmp/seed/$id.applied.diff
git checkout -- src
echo "== demo WITHOUT change"; timeout 900 cargo test --offline --test $demo 2>&1 | grep -E "^test result|panicked" | head -4
git apply /tmp/seed/$id.applied.diff
echo "== re-applied:"; git diff --stat -- src | tail -1
} > $o/confirm.log 2>&1
echo done >> $o/confirm.log
