#!/bin/bash
# run every claimed check (quick tier) on the current tree; used before committing evidence
cd /verif
git -C /repo status --short | grep -v '^??' && { echo "repo dirty"; exit 1; }
(cd lean && lake build StrettoModel smdriver 2>&1 | grep -E "^error|✖" | head)
fail=0
for p in $(python3 -c "import json;print(' '.join(c['property_id'] for c in json.load(open('MANIFEST.json'))['checks']))"); do
  (cd lean && lake build StrettoModel.Props.$p 2>&1 | grep -E "^error" | head -3)
  out=$(./check $p --tier ${1:-quick} 2>&1 | tail -1)
  echo "$out"
  echo "$out" | grep -q "^OK" || fail=1
done
exit $fail
