#!/bin/bash
# confirm round-2 seeded changes in one scratch worktree: suite passes with the change, demo fails with it and passes without it
w=${ROUND_DIR:-/tmp/seed2}/confirm/wt
export CARGO_NET_OFFLINE=true CARGO_TARGET_DIR=${ROUND_DIR:-/tmp/seed2}/confirm/target
cd $w || exit 2
for P in "$@"; do
 for N in 1 2; do
  src=${ROUND_DIR:-/tmp/seed2}/$P/out
  [ -f $src/patch$N.diff ] || continue
  id=${P}${TAG:-r2}$( [ $N = 1 ] && echo a || echo b )
  out=${SEED_OUT:-/verif/seeded}/$id
  mkdir -p $out
  git checkout -- . ; rm -rf tests
  cp $src/patch$N.diff $out/patch.diff; cp $src/demo$N.rs $out/demo.rs; cp $src/README$N.md $out/README.md
  {
  echo "== apply"; git apply $out/patch.diff && git diff --stat -- src | tail -1
  echo "== suite with change (lib tests)"; timeout 1200 cargo test --offline --lib 2>&1 | grep -E "^test result|FAILED|failed|panicked" | head -6
  echo "== suite with change, second run"; timeout 1200 cargo test --offline --lib 2>&1 | grep -E "^test result|FAILED|failed|panicked" | head -6
  echo "== full-feature build"; cargo build --offline --features full 2>&1 | grep -E "^error|Finished" | head -3
  echo "== hooks build"; RUSTFLAGS='--cfg transparencies_stretto_verif' cargo build --offline --features full --target-dir ${ROUND_DIR:-/tmp/seed2}/confirm/target_v 2>&1 | grep -E "^error|Finished" | head -3
  mkdir -p tests; cp $out/demo.rs tests/demo_violation.rs
  echo "== demo WITH change"; timeout 1200 cargo test --offline --features full --test demo_violation 2>&1 | grep -E "^test result|panicked|FAILED" | head -5
  git checkout -- src
  echo "== demo WITHOUT change"; timeout 1200 cargo test --offline --features full --test demo_violation 2>&1 | grep -E "^test result|panicked|FAILED" | head -5
  rm -rf tests
  } > $out/confirm.log 2>&1
  echo "$id done"
 done
done
git checkout -- . ; rm -rf tests
