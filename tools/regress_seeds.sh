#!/bin/bash
# apply every kept seeded change in turn, run the check of its property, expect a VIOLATION; undo.
cd /verif
out=${1:-/tmp/regress_seeds.log}
: > $out
# runs against a changed tree must not leave their evidence behind
rm -rf /verif/.build/evidence.regress; cp -r /verif/evidence /verif/.build/evidence.regress
# optional second argument: only seeds whose id matches this regex
sel=${2:-.}
for d in seeded/*/; do
  id=$(basename $d)
  echo "$id" | grep -Eq "$sel" || continue
  # the check expected to report it: the first one named under "checks" (the seed's own property by default)
  prop=$(python3 -c "import json;m=json.load(open('$d/meta.json'));print((list(m.get('checks',{}).keys()) or [m['property']])[0][:3])")
  git -C /repo apply /verif/$d/patch.diff || { echo "$id patch-does-not-apply" >> $out; continue; }
  r=$(./check $prop --tier quick 2>&1 | grep -E "^VIOLATION|^OK" | head -2 | cut -c1-300 | tr '\n' ' ')
  git -C /repo checkout -- .
  echo "$id -> $r" >> $out
done
(cd /verif/harness && CARGO_NET_OFFLINE=true cargo build --offline --bin tracegen 2>&1 | tail -1)
rm -rf /verif/evidence; mv /verif/.build/evidence.regress /verif/evidence
git -C /repo status --short | grep -v '^??' | head -3
echo done >> $out
