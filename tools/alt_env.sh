#!/bin/bash
# Development aid: a second, independent copy of /repo and of this machinery under /tmp/alt, so that seeded
# changes can be tried while a long run occupies /repo. The registered checks never use it.
#   tools/alt_env.sh setup            create / refresh /tmp/alt/{repo,verif}
#   tools/alt_env.sh try <patch> <P>  apply <patch> to /tmp/alt/repo, run check <P> there, undo
set -e
A=${ALT_DIR:-/tmp/alt}
case "$1" in
setup)
  mkdir -p $A
  rm -rf $A/repo; git -C /repo worktree prune; git -C /repo worktree add --detach $A/repo HEAD >/dev/null
  rsync -a --delete --exclude .build --exclude replays --exclude seeded --exclude .git /verif/ $A/verif/
  mkdir -p $A/verif/.build $A/verif/replays
  sed -i "s#path = \"/repo\"#path = \"$A/repo\"#" $A/verif/harness/Cargo.toml
  sed -i "s#/verif/.build/target#$A/verif/.build/target#" $A/verif/harness/.cargo/config.toml
  sed -i "s#lock_src = \"/repo/Cargo.lock\"#lock_src = \"$A/repo/Cargo.lock\"#" $A/verif/vlib/runner.py
  (cd $A/verif/lean && lake build smdriver 2>&1 | tail -1)
  (cd $A/verif/harness && cargo build --offline --bin tracegen 2>&1 | tail -1)
  ;;
try)
  patch=$2; P=$3
  git -C $A/repo apply "$patch" || { echo "patch does not apply"; exit 2; }
  (cd $A/verif && ./check $P --tier quick 2>&1 | grep -E "^VIOLATION|^OK|MONITOR-FAIL|DIVERGE|GUARD" | head -6 | cut -c1-420) || true
  git -C $A/repo checkout -- .
  ;;
esac
