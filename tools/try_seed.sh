#!/bin/bash
# apply a seeded change to /repo, run the given checks, undo it
# runs against a changed tree must not leave their evidence behind
rm -rf /verif/.build/evidence.keep; cp -r /verif/evidence /verif/.build/evidence.keep
id=$1; shift
patch=/tmp/seed/$id-out/patch.diff
[ -f "$patch" ] || patch=/verif/seeded/$id/patch.diff
cd /repo && git apply "$patch" || { echo "patch does not apply"; exit 2; }
cd /verif
for c in "$@"; do echo "--- check $c with seeded $id"; ./check $c 2>&1 | tail -4 | cut -c1-400; done
git -C /repo checkout -- .
(cd /verif/harness && cargo build --offline 2>&1 | tail -1)
git -C /repo status --short | head -3
rm -rf /verif/evidence; mv /verif/.build/evidence.keep /verif/evidence
