#!/bin/bash
# apply an arbitrary patch to /repo, run the given checks (quick), undo it
# runs against a changed tree must not leave their evidence behind
rm -rf /verif/.build/evidence.keep; cp -r /verif/evidence /verif/.build/evidence.keep
patch=$1; shift
git -C /repo apply "$patch" || { echo "patch does not apply"; exit 2; }
cd /verif
for c in "$@"; do echo "--- check $c with $patch"; ./check $c --tier quick 2>&1 | grep -E "^VIOLATION|^OK|MONITOR-FAIL|DIVERGE|GUARD" | head -6 | cut -c1-420; done
git -C /repo checkout -- .
git -C /repo status --short | grep -v '^??' | head -3
rm -rf /verif/evidence; mv /verif/.build/evidence.keep /verif/evidence
