"""Shrink a failing cache trace: keep the life containing the failure, cut after the failing line,
then remove actions (delta debugging, re-executing the implementation each time) while a failure of
the same kind for the same property persists."""
import os, re, subprocess, time, tempfile


def split_lives(lines):
    lives, cur = [], None
    for ln in lines:
        if ln.startswith("c.init"):
            cur = [ln]
            lives.append(cur)
        elif cur is not None and ln.strip() and not ln.startswith("#"):
            cur.append(ln)
    return lives


def life_of_line(path, lineno):
    """the life (list of action strings) containing the lineno-th non-comment line, cut there"""
    acts, n = [], 0
    cur = None
    with open(path) as f:
        for ln in f:
            ln = ln.rstrip("\n")
            if not ln.strip() or ln.startswith("#"):
                continue
            n += 1
            if ln.startswith("c.init"):
                cur = []
            if cur is not None:
                cur.append(ln.split(" | ")[0])
            if n >= lineno:
                break
    return cur or []


def run_script(tracegen, driver, acts, workdir, component="cache"):
    script = os.path.join(workdir, "script.trace")
    with open(script, "w") as f:
        f.write("\n".join(acts) + "\n")
    p = subprocess.run([tracegen, "replay-cache", "--script", script], stdout=subprocess.PIPE,
                       stderr=subprocess.DEVNULL, text=True, timeout=120)
    trace = p.stdout
    d = subprocess.run([driver, component], input=trace, stdout=subprocess.PIPE, stderr=subprocess.DEVNULL,
                       text=True, timeout=120)
    return trace, d.stdout


def signature(msg):
    """kind + property + the message with numbers blanked"""
    m = re.match(r"(\S+) line=\d+ (property=\S+|field=\S+)?\s*(.*)", msg)
    if not m:
        return msg
    body = re.sub(r"\d+", "N", m.group(3))[:60]
    return f"{m.group(1)} {m.group(2)} {body}"


def has_failure(dout, sig):
    for line in dout.splitlines():
        if line.split(" ")[0] in ("MONITOR-FAIL", "DIVERGE", "GUARD-FAIL") and signature(line) == sig:
            return True
    return False


def shrink(tracegen, driver, trace_path, lineno, message, budget_s=25):
    acts = life_of_line(trace_path, lineno)
    if not acts:
        return None
    sig = signature(message)
    work = tempfile.mkdtemp(prefix="shrink-", dir=os.path.dirname(trace_path))
    try:
        trace, dout = run_script(tracegen, driver, acts, work)
        if not has_failure(dout, sig):
            # not reproducible in isolation (depends on earlier lives?) — keep unshrunk
            return {"acts": acts, "trace": trace, "driver": dout, "shrunk": False}
        t0 = time.time()
        head, body = acts[0], acts[1:]
        chunk = max(1, len(body) // 2)
        while chunk >= 1 and time.time() - t0 < budget_s:
            i = 0
            progressed = False
            while i < len(body) and time.time() - t0 < budget_s:
                cand = body[:i] + body[i + chunk:]
                try:
                    tr, do = run_script(tracegen, driver, [head] + cand, work)
                except subprocess.TimeoutExpired:
                    i += chunk
                    continue
                if has_failure(do, sig):
                    body = cand
                    trace, dout = tr, do
                    progressed = True
                else:
                    i += chunk
            if chunk == 1 and not progressed:
                break
            chunk = max(1, chunk // 2) if chunk > 1 else (1 if progressed else 0)
        return {"acts": [head] + body, "trace": trace, "driver": dout, "shrunk": True}
    finally:
        import shutil
        shutil.rmtree(work, ignore_errors=True)
