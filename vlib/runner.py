import sys, os, json, time, subprocess, re, fcntl, shutil, math, hashlib
from concurrent.futures import ThreadPoolExecutor

VERIF = os.path.dirname(os.path.dirname(os.path.abspath(__file__)))
LEAN = os.path.join(VERIF, "lean")
HARNESS = os.path.join(VERIF, "harness")
BUILD = os.path.join(VERIF, ".build")
TRACEGEN = os.path.join(BUILD, "target", "debug", "tracegen")
DRIVER = os.path.join(LEAN, ".lake", "build", "bin", "smdriver")
REPLAYS = os.path.join(VERIF, "replays")
EVIDENCE = os.path.join(VERIF, "evidence")
ALLOWED_AXIOMS = {"propext", "Classical.choice", "Quot.sound"}
FORBIDDEN = [r"\bsorry\b", r"\badmit\b", r"^\s*axiom\s", r"native_decide", r"bv_decide",
             r"implemented_by", r"\bunsafe\s", r"maxHeartbeats\s+0"]

TRUSTED_BASE = [
    "Lean 4.33.0 kernel (theorems accepted by `lake build`; axioms audited with #print axioms: only propext, Classical.choice, Quot.sound allowed)",
    "the hand-written Lean model in lean/StrettoModel/Model and the statements in lean/StrettoModel/Props",
    "the correspondence check: harness/ (Rust, in-process against /repo built with --cfg transparencies_stretto_verif), the hook facade src/verif.rs, the Lean driver's parser/comparator, the generators' reach",
    "modelled, not verified: parking_lot lock semantics, crossbeam/async-channel FIFO channels, wg wait-groups, std HashMap as a finite map, monotone clock, f64 sizing arithmetic, memory safety of the unsafe blocks",
]


class Finding:
    def __init__(self, kind, message, job=None, trace=None, line=None, gen=None):
        self.kind = kind          # monitor | diverge | guard | oracle | bad | build | proof
        self.message = message
        self.job = job
        self.trace = trace
        self.line = line
        self.gen = gen            # generator argv that reproduces the trace

    def __repr__(self):
        return f"{self.kind}: {self.message}"


def sh(cmd, cwd=None, env=None, timeout=None, input=None):
    e = dict(os.environ)
    e["CARGO_NET_OFFLINE"] = "true"
    if env:
        e.update(env)
    try:
        p = subprocess.run(cmd, cwd=cwd, env=e, stdout=subprocess.PIPE, stderr=subprocess.STDOUT,
                           timeout=timeout, input=input, text=True, errors="replace")
    except subprocess.TimeoutExpired as ex:
        out = ex.stdout if isinstance(ex.stdout, str) else (ex.stdout or b"").decode("utf-8", "replace")
        return 124, out + f"\n[timeout after {timeout} s: {' '.join(map(str, cmd))[:200]}]"
    return p.returncode, p.stdout


class Lock:
    def __init__(self, name):
        os.makedirs(BUILD, exist_ok=True)
        self.path = os.path.join(BUILD, name + ".lock")

    def __enter__(self):
        self.f = open(self.path, "w")
        fcntl.flock(self.f, fcntl.LOCK_EX)

    def __exit__(self, *a):
        fcntl.flock(self.f, fcntl.LOCK_UN)
        self.f.close()


def build_harness():
    """rebuild the harness (and stretto) from /repo's current working tree, hooks on"""
    with Lock("cargo"):
        lock_src = "/repo/Cargo.lock"
        rc, out = sh(["cargo", "build", "--offline", "--bin", "tracegen"], cwd=HARNESS, timeout=1800)
    return rc == 0, out


def build_lean(module):
    with Lock("lake"):
        rc, out = sh(["lake", "build", module, "smdriver"], cwd=LEAN, timeout=3600)
    return rc == 0, out


def audit_lean(module):
    """returns (obligations, discharged, axioms_seen, problems)"""
    problems = []
    path = os.path.join(LEAN, module.replace(".", "/") + ".lean")
    rc, out = sh(["lake", "env", "lean", path], cwd=LEAN, timeout=1800)
    if rc != 0:
        problems.append(f"theorem module {module} does not check: " + out.strip().splitlines()[0] if out.strip() else "lean failed")
    thms = []
    axioms = set()
    # messages may wrap over lines: join
    text = out.replace("\n  ", " ")
    for m in re.finditer(r"'([^']+)' depends on axioms: \[([^\]]*)\]", text):
        axs = [a.strip() for a in m.group(2).split(",") if a.strip()]
        thms.append((m.group(1), axs))
        axioms.update(axs)
    for m in re.finditer(r"'([^']+)' does not depend on any axioms", text):
        thms.append((m.group(1), []))
    discharged = 0
    for name, axs in thms:
        bad = [a for a in axs if a not in ALLOWED_AXIOMS]
        if bad:
            problems.append(f"theorem {name} depends on disallowed axioms {bad}")
        else:
            discharged += 1
    if not thms:
        problems.append(f"no `#print axioms` output from {module}")
    # every theorem in the Props file must be listed by a #print axioms line
    src = open(path).read()
    declared = re.findall(r"^theorem\s+([A-Za-z0-9_'.]+)", src, flags=re.M)
    ns = re.search(r"^namespace\s+(\S+)", src, flags=re.M)
    prefix = (ns.group(1) + ".") if ns else ""
    listed = {n for n, _ in thms}
    # forbidden constructs anywhere in the Lean sources
    for root, _, files in os.walk(os.path.join(LEAN)):
        if ".lake" in root:
            continue
        for f in files:
            if not f.endswith(".lean"):
                continue
            p = os.path.join(root, f)
            in_block = 0
            for ln, line in enumerate(open(p), 1):
                # strip block and line comments (roughly)
                stripped = line
                if "/-" in stripped or in_block:
                    in_block += stripped.count("/-") - stripped.count("-/")
                    continue
                stripped = stripped.split("--")[0]
                for pat in FORBIDDEN:
                    if re.search(pat, stripped):
                        problems.append(f"forbidden construct {pat!r} at {os.path.relpath(p, VERIF)}:{ln}")
    return len(thms), discharged, sorted(axioms), problems, [n for n, _ in thms]


def parse_driver(out):
    res = {"summary": None, "cover": {}, "msgs": []}
    for line in out.splitlines():
        if line.startswith("SUMMARY"):
            res["summary"] = {k: int(v) for k, v in (t.split("=") for t in line.split()[1:])}
        elif line.startswith("COVER "):
            k, v = line[6:].rsplit("=", 1)
            res["cover"][k] = int(v)
        elif line.split(" ")[0] in ("DIVERGE", "MONITOR-FAIL", "GUARD-FAIL", "BAD-LINE"):
            res["msgs"].append(line)
    return res


def run_trace_job(pid, job, seed, tier, tag=""):
    """generate a trace from the implementation and replay it in the model driver"""
    d = os.path.join(BUILD, "traces", pid)
    os.makedirs(d, exist_ok=True)
    gen = job["gen"](tier, seed)
    trace = os.path.join(d, f"{job['name']}-{seed}{tag}.trace")
    t0 = time.time()
    # the quick tier's traces take seconds on the unchanged tree: a generator that needs more than ten minutes
    # is stuck on waits (reported as a finding with its command line), not worth an hour of the caller's time
    limit = job.get("timeout", 1500)
    if tier == "quick":
        limit = min(limit, 600)
    rc, out = sh([TRACEGEN] + gen + ["--out", trace], timeout=limit)
    findings = []
    if rc != 0:
        findings.append(Finding("bad", f"trace generator failed (rc={rc}): {out.strip()[-300:]}", job["name"], trace, gen=gen))
        return {"job": job["name"], "seed": seed, "findings": findings, "lines": 0, "cover": {}, "trace": trace, "gen": gen, "wall": time.time() - t0}
    with open(trace) as f:
        rc, dout = sh([DRIVER, job["driver"]], input=f.read(), timeout=limit)
    r = parse_driver(dout)
    if r["summary"] is None:
        findings.append(Finding("bad", f"model driver produced no summary (rc={rc}): {dout.strip()[-300:]}", job["name"], trace, gen=gen))
        return {"job": job["name"], "seed": seed, "findings": findings, "lines": 0, "cover": {}, "trace": trace, "gen": gen, "wall": time.time() - t0}
    for m in r["msgs"]:
        kind = {"DIVERGE": "diverge", "MONITOR-FAIL": "monitor", "GUARD-FAIL": "guard", "BAD-LINE": "bad"}[m.split(" ")[0]]
        # a check only listens to its own property's monitors and to the model fields it depends on
        if kind == "monitor":
            pm = re.search(r"property=(C\d+)", m)
            if pm and pm.group(1) != pid and pm.group(1) not in job.get("also_monitors", []):
                continue
        if kind == "diverge" and job.get("fields"):
            fm = re.search(r"field=(\S+)", m)
            if fm and not re.search(job["fields"], fm.group(1)):
                continue
        lm = re.search(r"line=(\d+)", m)
        findings.append(Finding(kind, m, job["name"], trace, int(lm.group(1)) if lm else None, gen=gen))
    s = r["summary"]
    return {"job": job["name"], "seed": seed, "findings": findings, "lines": s["lines"], "ok": s["ok"],
            "counts": s, "cover": r["cover"], "trace": trace, "gen": gen, "wall": time.time() - t0}


def run_corpus_job(pid, script, driver="cache"):
    """re-execute a minimized past failure against the current implementation"""
    d = os.path.join(BUILD, "traces", pid)
    os.makedirs(d, exist_ok=True)
    name = "corpus-" + os.path.basename(script)
    trace = os.path.join(d, name + ".trace")
    gen = ["replay-cache", "--script", script]
    job = {"name": name, "driver": driver, "gen": lambda tier, seed: gen}
    return run_trace_job(pid, job, 0, "quick", tag="")


def trace_stats(path, max_samples=3):
    """distinct non-comment lines, and a few samples"""
    seen = set()
    samples = []
    n = 0
    try:
        with open(path) as f:
            for line in f:
                line = line.rstrip("\n")
                if not line or line.startswith("#"):
                    continue
                n += 1
                h = hashlib.blake2b(line.encode(), digest_size=8).digest()
                if h not in seen:
                    seen.add(h)
                    if len(samples) < max_samples and len(line) < 400 and (n % 97 == 1):
                        samples.append(line)
    except FileNotFoundError:
        pass
    return n, seen, samples


def write_replay(pid, seed, finding, extra_msgs, driver=None):
    os.makedirs(REPLAYS, exist_ok=True)
    path = os.path.join(REPLAYS, f"{pid}-{seed}-{finding.job or finding.kind}.trace")
    # cache traces: shrink to a minimal action script that still fails against the implementation
    if driver == "cache" and finding.kind == "monitor" and finding.trace and finding.line:
        try:
            import shrink
            r = shrink.shrink(TRACEGEN, DRIVER, finding.trace, finding.line, finding.message, budget_s=25)
        except Exception as e:  # shrinking is best effort
            r = None
        if r and r.get("shrunk"):
            with open(path, "w") as out:
                out.write(f"# property: {pid}\n# failure: {finding.message}\n")
                out.write("# minimized action script (answers after `|` are the implementation's on this run);\n")
                out.write("# replay: tracegen replay-cache --script <this file>\n")
                out.write(r["trace"])
            return path
    with open(path, "w") as out:
        out.write(f"# property: {pid}\n")
        if finding.gen:
            out.write("# replay: tracegen " + " ".join(finding.gen) + "\n")
        out.write(f"# failure: {finding.message}\n")
        for m in extra_msgs[:20]:
            out.write(f"# also: {m}\n")
        if finding.trace and os.path.exists(finding.trace):
            upto = finding.line
            n = 0
            with open(finding.trace) as f:
                for line in f:
                    if line.strip() and not line.startswith("#"):
                        n += 1
                    out.write(line)
                    if upto is not None and n >= upto:
                        break
    return path


def load_known():
    p = os.path.join(VERIF, "known_findings.json")
    if not os.path.exists(p):
        return []
    return json.load(open(p)).get("findings", [])


def main(argv):
    import props
    if not argv:
        print(__doc__)
        return 2
    pid = argv[0]
    tier = os.environ.get("VERIF_TIER", "quick")
    replay = None
    i = 1
    while i < len(argv):
        if argv[i] == "--tier":
            tier = argv[i + 1]; i += 2
        elif argv[i] == "--replay":
            replay = argv[i + 1]; i += 2
        else:
            i += 1
    seed = int(os.environ.get("VERIF_SEED", "1") or "1")
    if pid not in props.PROPS:
        print(f"unknown property {pid}")
        return 2
    spec = props.PROPS[pid]
    t0 = time.time()
    findings = []
    notes = []

    # 1. harness ---------------------------------------------------------------------------
    ok, out = build_harness()
    if not ok:
        tail = "\n".join(out.strip().splitlines()[-15:])
        findings.append(Finding("build", "the harness no longer builds against /repo with hooks on:\n" + tail))
    # 2. theorems ---------------------------------------------------------------------------
    obligations = discharged = 0
    rechecked = "not run (quick tier)"
    axioms = []
    thm_names = []
    if spec.get("module") is None:
        okl, outl = build_lean("StrettoModel")
        spec = dict(spec); spec["module"] = "StrettoModel"
        skip_audit = True
    else:
        okl, outl = build_lean(spec["module"])
        skip_audit = False
    if not okl:
        findings.append(Finding("proof", "lake build failed for " + spec["module"] + ": " + "\n".join(outl.strip().splitlines()[-10:])))
    elif not skip_audit:
        obligations, discharged, axioms, problems, thm_names = audit_lean(spec["module"])
        for p in problems:
            findings.append(Finding("proof", p))
        # thorough tier: the compiled theorem module is re-checked by Lean's independent checker
        if tier == "thorough" and shutil.which("leanchecker"):
            rcc, outc = sh(["lake", "env", "leanchecker", spec["module"]], cwd=LEAN, timeout=3600)
            rechecked = "ok" if rcc == 0 else "FAILED"
            if rcc != 0:
                findings.append(Finding("proof", f"leanchecker rejects the compiled module {spec['module']}: " + outc.strip()[-300:]))

    if replay:
        return do_replay(pid, spec, replay)

    # 3. correspondence + monitors ----------------------------------------------------------
    results = []
    oracle_results = []
    if ok and okl:
        jobs = [(j, seed + k) for j in spec["jobs"] for k in range(j.get("seeds", {}).get(tier, 1))]
        corpus_dir = os.path.join(VERIF, "corpus", pid)
        scripts = sorted(os.path.join(corpus_dir, f) for f in os.listdir(corpus_dir) if f.endswith(".script")) if os.path.isdir(corpus_dir) else []
        with ThreadPoolExecutor(max_workers=14) as ex:
            futs = [ex.submit(run_corpus_job, pid, sc) for sc in scripts]
            futs += [ex.submit(run_trace_job, pid, j, s, tier) for j, s in jobs]
            for f in futs:
                results.append(f.result())
        for r in results:
            findings.extend(r["findings"])
        for o in spec.get("oracles", []):
            res = o["run"](tier, seed, TRACEGEN, sh)
            oracle_results.append({"name": o["name"], **res["report"]})
            for m in res["failures"]:
                findings.append(Finding(res.get("kind", "oracle"), m, o["name"], gen=res.get("gen")))
        # 4. failing-input search: divergence without a monitor failure -------------------
        has_div = any(f.kind in ("diverge", "guard", "bad") for f in findings)
        has_mon = any(f.kind in ("monitor", "oracle") for f in findings)
        if has_div and not has_mon:
            extra = 4 if tier == "quick" else 16
            notes.append(f"failing-input search: {extra} more seeds per generator")
            with ThreadPoolExecutor(max_workers=14) as ex:
                futs = [ex.submit(run_trace_job, pid, dict(j, timeout=min(j.get("timeout", 1500), 900)), seed + 1000 + k, "thorough", "-search")
                        for j in spec["jobs"] for k in range(extra)]
                for f in futs:
                    r = f.result()
                    mons = [x for x in r["findings"] if x.kind == "monitor"]
                    findings.extend(mons)
                    results.append(r)

    # 5. verdict ----------------------------------------------------------------------------
    known = [k for k in load_known() if k.get("property") == pid and k.get("kind") == "known"]
    printed_known = set()
    violations = []
    for f in findings:
        hit = None
        for k in known:
            if re.search(k["match"], f.message):
                hit = k
                break
        if hit:
            if hit["id"] not in printed_known:
                printed_known.add(hit["id"])
                print(f"KNOWN-FINDING: property={pid} {hit['id']} {hit['description']}")
        else:
            violations.append(f)

    rc = 0
    if violations:
        rc = 1
        mons = [f for f in violations if f.kind in ("monitor", "oracle")]
        primary = mons[0] if mons else violations[0]
        drv = next((j.get("driver") for j in spec["jobs"] if j["name"] == primary.job), None)
        if primary.job and primary.job.startswith("corpus-"):
            drv = "cache"
        if primary.job == "acache":
            drv = None  # AsyncCache traces are re-generated from their seed, not shrunk through replay-cache
        path = write_replay(pid, seed, primary, [f.message for f in violations if f is not primary], driver=drv)
        tail = "" if mons else " no-failing-input-found"
        for f in (mons[:5] if mons else violations[:5]):
            print("  " + f.message.splitlines()[0][:300])
        print(f"VIOLATION property={pid} replay={path}{tail}")

    # 6. evidence ---------------------------------------------------------------------------
    total_lines = 0
    distinct = set()
    samples = []
    cover = {}
    for r in results:
        n, seen, smp = trace_stats(r["trace"])
        total_lines += n
        distinct |= seen
        if len(samples) < 6:
            samples.extend(smp[: 6 - len(samples)])
        for k, v in r.get("cover", {}).items():
            cover[k] = cover.get(k, 0) + v
    under = [b for b in spec.get("branches", []) if cover.get(b, 0) == 0]
    ev = {
        "property_id": pid,
        "tier": tier,
        "seed": seed,
        "level": "proof" if obligations > 0 else "exploration",
        "coverage": {
            "obligations": obligations,
            "discharged": discharged,
            "checker_cmd": f"cd lean && lake build {spec['module']} && lake env lean {spec['module'].replace('.', '/')}.lean  # #print axioms audit",
            "trusted_base": TRUSTED_BASE + spec.get("trusted_extra", []),
            "theorems": thm_names,
            "axioms_seen": axioms,
            "leanchecker": rechecked,
            "evaluations": total_lines,
            "distinct_nontrivial": len(distinct),
            "rule": spec.get("rule", "each trace line is one implementation step (operation, oracle inputs, observed result/state) replayed through the Lean model; distinct = distinct lines (operation + observed result) over all traces of this run"),
            "traces_validated_against_impl": len(results),
            "samples": samples or ["(no trace produced)"],
            "model_branch_counters": cover,
            "under_covered_branches": under,
            "oracle_tests": oracle_results,
            "failing_input_search": notes,
            "known_findings_matched": sorted(printed_known),
        },
        "assumptions": spec.get("assumptions", []),
        "wall_s": round(time.time() - t0, 2),
        "violations": len(violations),
    }
    os.makedirs(EVIDENCE, exist_ok=True)
    with open(os.path.join(EVIDENCE, f"{pid}.json"), "w") as f:
        json.dump(ev, f, indent=1)
    if rc == 0:
        print(f"OK property={pid} tier={tier} seed={seed} theorems={discharged}/{obligations} "
              f"trace_lines={total_lines} distinct={len(distinct)} wall={ev['wall_s']}s")
    return rc


def do_replay(pid, spec, path):
    gen = None
    for line in open(path):
        if line.startswith("# replay: tracegen "):
            gen = line[len("# replay: tracegen "):].split()
            break
    if gen and gen[0] == "replay-cache":
        gen = ["replay-cache", "--script", path]
    if gen is None:
        print("replay file has no generator line; replaying the recorded trace through the model only")
        job = spec["jobs"][0]
        rc, dout = sh([DRIVER, job["driver"]], input=open(path).read())
        print(dout)
        return 0 if rc == 0 else 1
    comp = gen[0]
    if comp in ("live", "flavour", "bloomfp"):
        # implementation-vs-oracle tests judge themselves: re-run and read the verdict
        if "--out" in gen:
            k = gen.index("--out"); del gen[k:k + 2]
        rc, out = sh([TRACEGEN] + gen, timeout=1800)
        print(out)
        bad = re.search(r"violations=([1-9]\d*)|mismatches=([1-9]\d*)|false_neg=([1-9]\d*)", out)
        if comp == "bloomfp":
            o = next((o for o in spec.get("oracles", []) if "bloom" in o["name"] or "fp" in o["name"]), None)
            if o:
                res = o["run"]("quick", int(gen[gen.index("--seed") + 1]) if "--seed" in gen else 1, TRACEGEN, sh)
                for m in res["failures"]:
                    print(m)
                return 1 if res["failures"] else 0
        return 1 if (bad or rc != 0) else 0
    job = next((j for j in spec["jobs"] if j["gen"]("quick", 0)[0] == comp), spec["jobs"][0])
    if comp == "replay-cache":
        job = {"driver": "cache"}
    d = os.path.join(BUILD, "traces", pid)
    os.makedirs(d, exist_ok=True)
    trace = os.path.join(d, "replay.trace")
    if "--out" in gen:
        k = gen.index("--out"); del gen[k:k + 2]
    rc, out = sh([TRACEGEN] + gen + ["--out", trace])
    if rc != 0:
        print(out)
        return 1
    if job.get("driver"):
        rc, dout = sh([DRIVER, job["driver"]], input=open(trace).read())
        print(dout)
        return 0 if rc == 0 else 1
    print(open(trace).read())
    return 0
