"""Per-property configuration of the checks: theorem module, trace generators, oracle tests."""
import math, re


def tiers(quick, thorough):
    return lambda tier: quick if tier == "quick" else thorough


# ---------------------------------------------------------------------------------------------
# C14 oracle test: false-positive rate of the real filter on uniformly mixed hashes
# ---------------------------------------------------------------------------------------------
def bloom_fp_oracle(tier, seed, tracegen, sh):
    probes = 100000 if tier == "quick" else 400000
    gen = ["bloomfp", "--seed", str(seed), "--probes", str(probes)]
    rc, out = sh([tracegen] + gen)
    failures = []
    rows = []
    for line in out.splitlines():
        m = re.match(r"fp n=(\d+) p=([\d.]+) probes=(\d+) false_pos=(\d+) false_neg=(\d+)", line)
        if not m:
            continue
        n, p, pr, fp, fn = int(m[1]), float(m[2]), int(m[3]), int(m[4]), int(m[5])
        bound = 3 * p + 4 * math.sqrt(p * (1 - p) / pr)
        rate = fp / pr
        rows.append({"n": n, "p": p, "probes": pr, "false_pos": fp, "false_neg": fn, "rate": rate, "bound": round(bound, 5)})
        if fn:
            failures.append(f"MONITOR-FAIL property=C14 {fn} false negatives after adding {n} uniformly mixed hashes to a filter sized for (n={n}, p={p}) [tracegen {' '.join(gen)}]")
        if rate > bound:
            failures.append(f"MONITOR-FAIL property=C14 false-positive rate {rate:.4f} > 3p+4sigma = {bound:.4f} after adding n={n} uniformly mixed hashes to a filter sized for (n={n}, p={p}); {fp}/{pr} fresh hashes reported present [tracegen {' '.join(gen)}]")
    if rc != 0 or not rows:
        failures.append("bloomfp generator failed: " + out[-200:])
    return {"report": {"kind": "implementation-vs-oracle test (not a proof)", "rows": rows}, "failures": failures, "gen": gen}


def policy_job(fields):
    return {"name": "policy", "driver": "policy", "fields": fields,
            "gen": lambda tier, seed: ["policy", "--seed", str(seed), "--ops", "300" if tier == "quick" else "1500",
                                       "--lives", "30" if tier == "quick" else "120"],
            "seeds": {"quick": 1, "thorough": 12}}


POLICY_BRANCHES = ["add.oversize", "add.room", "add.update", "add.evict.1", "add.evict.2", "add.evict.3", "add.reject.0",
                   "add.reject.1", "add.tie", "add.fewer_than_samples", "add.over_budget_before", "remove.charged",
                   "remove.absent", "update.charged", "update.absent", "maxcost", "maxcost.below_used", "clear", "cost", "cap"]

PROPS = {
    "C01": {
        "module": "StrettoModel.Props.C01",
        "jobs": [policy_job(r"^pol\.(add|add\.state|remove|update|clear|maxcost|cost|cap)$")],
        "branches": POLICY_BRANCHES,
        "assumptions": [
            "i64 costs are modelled by unbounded Int under Dom: costs >= 0 and no i64 overflow of cost + item_size or of the running sum",
            "every LFUPolicy method holds the policy mutex for its whole body, so thread schedules reduce to sequences of method calls; update_max_cost's atomic store racing an add in progress is modelled as before-or-after",
            "HashMap iteration order and sketch estimates enter the model as oracle inputs observed from the implementation (guards checked by the driver)",
        ],
    },
    "C07": {
        "module": "StrettoModel.Props.C07",
        "jobs": [policy_job(r"^pol\.(add|add\.state)$")],
        "branches": POLICY_BRANCHES,
        "assumptions": [
            "popularity estimates are an arbitrary function in the theorems; the implementation's values are observed inside the loop through the cfg-gated observer (estimates of every sample entry and of the newcomer)",
            "what fill_sample appends at each iteration is an oracle input (HashMap iteration order), checked against the guard validRefill by the driver",
            "termination of the loop is not part of these theorems (the model loop is driven by the observed iterations)",
        ],
    },
    "C13": {
        "module": "StrettoModel.Props.C13",
        "jobs": [
            {"name": "sketch", "driver": "tiny",
             "gen": lambda tier, seed: ["sketch", "--seed", str(seed), "--ops", "300" if tier == "quick" else "2000",
                                        "--lives", "40" if tier == "quick" else "140"],
             "seeds": {"quick": 1, "thorough": 12}},
        ],
        "branches": ["row.get", "row.inc", "row.reset", "tiny.inc.reset", "tiny.inc.sketch", "tiny.inc.doorkeeper",
                     "tiny.clear", "tiny.est.unseen", "tiny.est.seen", "tiny.est.saturated"],
        "assumptions": [
            "hashes are arbitrary naturals in the theorems; the implementation's u64 arithmetic (xor, and, shifts) is tied to the model's by the correspondence check, exhaustively at byte level for CountMinRow (all 256 byte values x both nibbles)",
            "seeds, mask, row width, Bloom exponent/probe count and `samples` are read from the live TinyLFU on every run; theorems quantify over all of them under mask < 2*width, depth >= 1, k >= 1",
        ],
    },
    "C14": {
        "module": "StrettoModel.Props.C14",
        "jobs": [
            {"name": "bloom", "driver": "tiny",
             "gen": lambda tier, seed: ["bloom", "--seed", str(seed), "--ops", "200" if tier == "quick" else "800",
                                        "--lives", "30" if tier == "quick" else "100"],
             "seeds": {"quick": 1, "thorough": 10}},
        ],
        "oracles": [{"name": "false-positive-rate", "run": bloom_fp_oracle}],
        "branches": ["bloom.add", "bloom.coa.added", "bloom.coa.present", "bloom.has.true", "bloom.has.false", "bloom.reset"],
        "assumptions": [
            "the false-positive clause is decided by the structural theorems (exact probe addressing, all 2^exp bits usable, <= n*k bits set) plus a measurement on the real filter with uniformly mixed hashes (FP <= 3p + 4 sigma), which is a test, not a proof",
            "f64 sizing (calc_size_by_wrong_positives) is not modelled: (exp, k) are read from the live filter",
            "a little-endian target (the byte-pointer addressing of set/is_set is compared at bit level with the Vec<u64>)",
        ],
    },
}
