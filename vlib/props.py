"""Per-property configuration of the checks: theorem module, trace generators, oracle tests."""
import math, re


def tiers(quick, thorough):
    return lambda tier: quick if tier == "quick" else thorough


# ---------------------------------------------------------------------------------------------
# C14 oracle test: false-positive rate of the real filter on uniformly mixed hashes and on structured
# families (hashes differing only in high bits / only in low bits / small integers)
# ---------------------------------------------------------------------------------------------
def bloom_fp_oracle(tier, seed, tracegen, sh):
    probes = 100000 if tier == "quick" else 400000
    gen = ["bloomfp", "--seed", str(seed), "--probes", str(probes)]
    rc, out = sh([tracegen] + gen)
    failures = []
    rows = []
    for line in out.splitlines():
        m = re.match(r"fp n=(\d+) p=([\d.]+) probes=(\d+) false_pos=(\d+) false_neg=(\d+)", line)
        if not m:
            continue
        n, p, pr, fp, fn = int(m[1]), float(m[2]), int(m[3]), int(m[4]), int(m[5])
        bound = 3 * p + 4 * math.sqrt(p * (1 - p) / pr)
        rate = fp / pr
        rows.append({"n": n, "p": p, "probes": pr, "false_pos": fp, "false_neg": fn, "rate": rate, "bound": round(bound, 5)})
        if fn:
            failures.append(f"MONITOR-FAIL property=C14 {fn} false negatives after adding {n} uniformly mixed hashes to a filter sized for (n={n}, p={p}) [tracegen {' '.join(gen)}]")
        if rate > bound:
            failures.append(f"MONITOR-FAIL property=C14 false-positive rate {rate:.4f} > 3p+4sigma = {bound:.4f} after adding n={n} uniformly mixed hashes to a filter sized for (n={n}, p={p}); {fp}/{pr} fresh hashes reported present [tracegen {' '.join(gen)}]")
    fam_desc = {"high16": "hashes that differ only in their 16 highest bits (j << 48 | c)",
                "low16": "hashes that differ only in their 16 lowest bits (c | j)",
                "ints": "the integers 0 .. 2^17 themselves (what TransparentKeyBuilder feeds the doorkeeper)"}
    for line in out.splitlines():
        m = re.match(r"fpfam family=(\S+) n=(\d+) p=([\d.]+) probes=(\d+) false_pos=(\d+) false_neg=(\d+) c_lo=(\d+) c_hi=(\d+)", line)
        if not m:
            continue
        fam, n, p, pr, fp, fn = m[1], int(m[2]), float(m[3]), int(m[4]), int(m[5]), int(m[6])
        bound = 3 * p + 4 * math.sqrt(p * (1 - p) / pr)
        rate = fp / pr
        rows.append({"family": fam, "n": n, "p": p, "probes": pr, "false_pos": fp, "false_neg": fn, "rate": rate, "bound": round(bound, 5)})
        if fn:
            failures.append(f"MONITOR-FAIL property=C14 {fn} false negatives after adding {n} members of the family {fam_desc.get(fam, fam)} to a filter sized for (n={n}, p={p}) [tracegen {' '.join(gen)}]")
        if rate > bound:
            failures.append(f"MONITOR-FAIL property=C14 false-positive rate {rate:.4f} > 3p+4sigma = {bound:.4f} on {fam_desc.get(fam, fam)} (c_lo={m[7]}, c_hi={m[8]}): {n} members added to a filter sized for (n={n}, p={p}), {fp} of the {pr} other members reported present [tracegen {' '.join(gen)}]")
    if rc != 0 or not rows:
        failures.append("bloomfp generator failed: " + out[-200:])
    return {"report": {"kind": "implementation-vs-oracle test (not a proof)", "rows": rows}, "failures": failures, "gen": gen}


def live_oracle(prop, scenarios, rounds_quick=300, rounds_thorough=3000):
    """implementation-vs-oracle tests on real threads (mode B); never a proof"""
    def run(tier, seed, tracegen, sh):
        failures, rows = [], []
        gen = None
        fail_gen = None
        for sc in scenarios:
            rounds = rounds_quick if tier == "quick" else rounds_thorough
            gen = ["live", "--scenario", sc, "--rounds", str(rounds), "--seed", str(seed), "--prop", prop]
            rc, out = sh([tracegen] + gen, timeout=600)
            m = re.search(r"live scenario=(\S+) rounds=(\d+) violations=(\d+) detail=(\S+)", out)
            if not m:
                failures.append(f"MONITOR-FAIL property={prop} live scenario {sc} produced no result (rc={rc}): {out[-200:]}")
                continue
            rows.append({"scenario": m[1], "rounds": int(m[2]), "violations": int(m[3])})
            if int(m[3]) > 0:
                failures.append(f"MONITOR-FAIL property={prop} live scenario {sc}: {m[4].replace('_', ' ')} [tracegen {' '.join(gen)}]")
                fail_gen = fail_gen or gen
        # the replay re-runs the scenario that failed (the first one, if several did)
        return {"report": {"kind": "implementation-vs-oracle test on real threads (not a proof)", "rows": rows}, "failures": failures, "gen": fail_gen or gen}
    return run


def flavour_oracle(tier, seed, tracegen, sh):
    """sync vs async differential on three executors (implementation-vs-implementation test)"""
    scripts = 12 if tier == "quick" else 90
    gen = ["flavour", "--seed", str(seed), "--ops", "60" if tier == "quick" else "120", "--scripts", str(scripts)]
    rc, out = sh([tracegen] + gen, timeout=1200)
    m = re.search(r"flavour scripts=(\d+) steps=(\d+) mismatches=(\d+) seed_mismatch=(\d+) detail=(\S+)", out)
    failures = []
    if not m:
        failures.append(f"MONITOR-FAIL property=C19 flavour differential produced no result (rc={rc}): {out[-200:]}")
        return {"report": {"rows": []}, "failures": failures, "gen": gen}
    if int(m[3]) > 0:
        details = [l[len("flavour-mismatch "):] for l in out.splitlines() if l.startswith("flavour-mismatch ")] or [m[5]]
        for d in details:
            failures.append(f"MONITOR-FAIL property=C19 {d.replace('_', ' ')[:1500]} [tracegen {' '.join(gen)}]")
    return {"report": {"kind": "differential test Cache vs AsyncCache on thread-per-task, tokio multi-thread and tokio current-thread executors (not a proof)",
                       "rows": [{"scripts": int(m[1]), "steps": int(m[2]), "mismatches": int(m[3]), "scripts_skipped_for_seed_mismatch": int(m[4])}]},
            "failures": failures, "gen": gen}


FLAVOUR_KEYS = {
    "C02": ["get", "getmut", "items"],
    "C03": ["get", "getmut", "ttl", "items", "buckets"],
    "C04": ["get", "items", "len"],
    "C05": ["cbs", "items", "buckets", "len", "charges"],
    "C06": ["items", "charges", "used", "len"],
    "C08": ["cbs", "items"],
    "C09": ["insert", "items", "buckets"],
    "C10": ["wait", "items", "charges"],
    "C11": ["clear", "items", "charges", "used", "met", "len", "buckets"],
    "C12": ["close", "closed", "pclosed", "get", "insert"],
    "C15": ["met", "ring"],
    "C16": ["charges", "cbs"],
    "C17": ["met", "life"],
}


def flavour_oracle_for(prop):
    """The sync/async differential run under another property's check. `Cache` is tied to the model and
    the model satisfies the property; where `AsyncCache` answers differently the property is no longer
    shown for it. The mismatch is reported under `prop` when the observables that differ are the ones
    the property speaks about."""
    keys = FLAVOUR_KEYS.get(prop, [])

    def run(tier, seed, tracegen, sh):
        res = flavour_oracle(tier, seed, tracegen, sh)
        out = []
        for f in res["failures"]:
            m = re.search(r"Cache gave \[(.*?)\] but AsyncCache gave \[(.*?)\]", f)
            differing = []
            if m:
                a = dict(t.split("=", 1) for t in m[1].split() if "=" in t)
                b = dict(t.split("=", 1) for t in m[2].split() if "=" in t)
                differing = sorted(k for k in set(a) | set(b) if a.get(k) != b.get(k))
            relevant = [k for k in differing if k in keys]
            # like the `fields` filter of the trace jobs: a check listens only to the observables its
            # property speaks about (C19's own check reports every mismatch)
            if relevant:
                out.append(f.replace("property=C19", f"property={prop}", 1)
                           + f" [AsyncCache differs from Cache in {','.join(relevant)}]")
        return {"report": res["report"], "failures": out, "gen": res.get("gen")}
    return run


def policy_job(fields):
    return {"name": "policy", "driver": "policy", "fields": fields,
            "gen": lambda tier, seed: ["policy", "--seed", str(seed), "--ops", "300" if tier == "quick" else "1500",
                                       "--lives", "30" if tier == "quick" else "120"],
            "seeds": {"quick": 1, "thorough": 12}}


POLICY_BRANCHES = ["add.oversize", "add.room", "add.update", "add.evict.1", "add.evict.2", "add.evict.3", "add.reject.0",
                   "add.reject.1", "add.tie", "add.fewer_than_samples", "add.over_budget_before", "remove.charged",
                   "remove.absent", "update.charged", "update.absent", "maxcost", "maxcost.below_used", "clear", "cost", "cap"]

def cache_job(fields, name="cache", extra=None, quick_ops=200, quick_lives=20, thorough_ops=500, thorough_lives=80, seeds=None):
    extra = extra or []
    return {"name": name, "driver": "cache", "fields": fields,
            "gen": lambda tier, seed: ["cache", "--seed", str(seed), "--ops", str(quick_ops if tier == "quick" else thorough_ops),
                                       "--lives", str(quick_lives if tier == "quick" else thorough_lives)] + extra,
            "seeds": seeds or {"quick": 2, "thorough": 42}, "timeout": 3000}


def acache_job(fields, extra=None, quick_lives=12, seeds=None):
    """stepped traces of AsyncCache (tokio current-thread runtime; same protocol, driver and model as `cache`)"""
    extra = extra or []
    return {"name": "acache", "driver": "cache", "fields": fields,
            "gen": lambda tier, seed: ["acache", "--seed", str(seed), "--ops", "200" if tier == "quick" else "400",
                                       "--lives", str(quick_lives if tier == "quick" else 60)] + extra,
            "seeds": seeds or {"quick": 1, "thorough": 20}, "timeout": 3000}


CACHE_ASSUME = [
    "granularity: one client call (or one half of a blocking call) and one iteration of the processor loop are atomic steps; interleavings inside a call (between its store step and its buffer send) are explored by the stepped harness only where yield points exist",
    "popularity estimates and HashMap iteration orders are oracle inputs observed from the implementation; the estimator itself is the subject of C13",
    "the stepped harness parks the two workers and drives ParkedProcessor::step, which mirrors the arms of the worker loop; the real loop is exercised by the live-mode jobs",
    "AsyncCache runs its real worker loops on a tokio current-thread runtime (acache job): between two yields of the client nothing is observable, so a.drain / a.wait / a.clear / a.close are replayed through the model as a whole and compared at their end; per-item observations (item descriptions, intermediate snapshots) exist for Cache only",
]

PROPS = {
    "C03": {
        "module": "StrettoModel.Props.C03",
        "oracles": [{"name": "live-sweep-race", "run": live_oracle("C03", ["async_sweep_race", "sweep_refresh_race", "async_sweep_refresh_race"])}, {"name": "flavour-differential", "run": flavour_oracle_for("C03")}],
            "jobs": [acache_job(r"\.(store|expiry|ret|callbacks|len)$", extra=["--w-ttl", "60"]), cache_job(r"\.(store|expiry|ret|callbacks|len)$", extra=["--w-ttl", "70"])],
        "branches": ["get.hit", "get.expired", "get.miss", "getttl.remaining", "getttl.max", "getttl.none", "insert.ttl", "insert.update",
                     "tick.reclaimed", "tick.recheck_skipped", "getmut.hit", "getmut.expired", "getttl.expired", "iip.expired"],
        "assumptions": CACHE_ASSUME + ["the clock is monotone (virtual clock hook in ttl.rs); time is nanoseconds, so every placement relative to second boundaries is a value of `now`"],
    },
    "C05": {
        "module": "StrettoModel.Props.C05",
        "oracles": [{"name": "live-sweep", "run": live_oracle("C05", ["async_sweep_race", "async_sweep_under_traffic", "cleanup_interval_honoured", "tiny_cleanup_interval", "sweep_refresh_race", "async_sweep_refresh_race"])}, {"name": "flavour-differential", "run": flavour_oracle_for("C05")}],
            "jobs": [acache_job(r"\.(store|expiry|policy|callbacks|len)$", extra=["--w-ttl", "60"]), cache_job(r"\.(store|expiry|policy|callbacks|len)$", extra=["--w-ttl", "80"])],
        "branches": ["tick.reclaimed", "tick.recheck_skipped", "tick.idle", "insert.ttl", "insert.update", "remove.resident"],
        "assumptions": CACHE_ASSUME + ["the tick period (crossbeam tick / async-io Timer) is environment: ticks are placed by the schedule, with a virtual nanosecond clock",
                                       "guards of the completeness theorems, checked at run time by the driver on every tick of the implementation: the visited keys are a permutation of the keys of the due buckets, and the conflict hashes filed there pass the store's check (TickOk)"],
    },
    "C02": {"module": "StrettoModel.Props.C02", "jobs": [acache_job(r"\.(store|ret|callbacks|buffer|clear)$", extra=["--collisions", "1"]), cache_job(r"\.(store|ret|callbacks|buffer|clear)$", extra=["--collisions", "1", "--w-clear", "5"])],
            "branches": ["get.hit", "get.miss", "get.conflict_miss", "getmut.hit", "insert.update", "insert.new_over_resident", "remove.resident", "p.clear.buf1", "delete.other_conflict"],
            "oracles": [{"name": "flavour-differential", "run": flavour_oracle_for("C02")}, {"name": "live-remove-full", "run": live_oracle("C02", ["remove_full", "async_remove_full", "invariants", "async_invariants", "async_clear_ack", "transparent_keys"])}],
            "assumptions": CACHE_ASSUME + ["values are opaque ids: the model carries a value id where the code carries a V; that the code hands back the V it stored under that id (no aliasing inside a shard's HashMap) is std's contract and is sampled by the correspondence (every returned value is compared)",
                                           "concurrent lookups during an in-place update are serialised by the shard lock; that atomicity (never a mixture of two values) is the RwLock's contract, not a theorem here"]},
    "C04": {"module": "StrettoModel.Props.C04", "oracles": [{"name": "flavour-differential", "run": flavour_oracle_for("C04")}, {"name": "live-clear-ack", "run": live_oracle("C04", ["async_clear_ack", "transparent_keys", "clear_after_removes"])}],
            "jobs": [acache_job(r"\.(store|expiry|policy|ret|callbacks|buffer|len)$", extra=["--w-ttl", "60"]), cache_job(r"\.(store|expiry|policy|ret|callbacks|buffer|len)$", extra=["--w-ttl", "50"])],
            "branches": ["padd.room", "padd.evicting", "padd.rejected", "insert.update", "insert.dropped", "remove.resident", "tick.reclaimed", "tick.idle"],
            "assumptions": CACHE_ASSUME + ["refines_ttl_map composes the per-operation squares over sequential histories (each operation taken to quiescence); for histories with several client calls in flight the composition is carried by the run-time no-loss monitor, which tracks capacity pressure (latest asked cost per charged key at quiescence, per-key peak while writes are in flight) and collisions from the implementation's own history",
                                           "guards of the tick square (visited keys cover the due buckets; TickOk) are checked at run time by the driver"]},
    "C06": {"module": "StrettoModel.Props.C06",
            "jobs": [acache_job(r"\.(store|policy|callbacks|len|buffer)$"), cache_job(r"\.(store|policy|callbacks|len|buffer)$", extra=["--collisions", "1"], quick_lives=14),
                     cache_job(r"\.(store|policy|callbacks|len|buffer)$", name="cache-plain", quick_lives=14)],
            "branches": ["padd.evicting", "padd.rejected", "padd.already_charged", "delete.resident", "delete.other_conflict", "delete.absent",
                         "tick.reclaimed", "p.clear.buf1", "remove.resident", "remove.buffer_full", "insert.split"],
            "oracles": [{"name": "flavour-differential", "run": flavour_oracle_for("C06")}, {"name": "live-remove-full", "run": live_oracle("C06", ["remove_full", "async_remove_full", "invariants", "async_invariants", "sweep_refresh_race", "async_sweep_refresh_race"])}],
            "assumptions": CACHE_ASSUME + ["guards of the theorem checked at run time on the implementation's observations: VictimsOk (no sampled victim is the incoming key) and TickOk (conflict hashes filed in due buckets pass the store's check)"]},
    "C08": {"module": "StrettoModel.Props.C08",
            "jobs": [acache_job(r"\.(store|callbacks|buffer|ret)$"), cache_job(r"\.(store|callbacks|buffer|ret)$", extra=["--collisions", "1"]), cache_job(r"\.(store|callbacks|buffer|ret)$", name="cache-plain", extra=["--w-clear", "5"])],
            "branches": ["insert.update", "insert.new", "insert.new_over_resident", "remove.resident", "delete.resident", "padd.evicting", "padd.rejected", "padd.already_charged",
                         "tick.reclaimed", "p.clear.buf1", "p.stop", "getmut.hit"],
            "oracles": [{"name": "flavour-differential", "run": flavour_oracle_for("C08")}, {"name": "live-invariants", "run": live_oracle("C08", ["invariants", "async_invariants", "clear_held_ref", "async_clear_ack"])}],
            "assumptions": CACHE_ASSUME + ["values are opaque ids; each write hands the cache a value id that occurs nowhere in it (a Rust value is moved in: a distinct object) — hypothesis `Fresh` of the run theorems; the harness numbers its values consecutively",
                                           "the run theorems assume C06's guards on oracle inputs (VictimsOk, TickOk), checked at run time by the driver on the implementation's observations",
                                           "the callback log of the model is the sequence of CacheCallback calls the recording callback of the harness saw; it is compared step by step"]},
    "C10": {"module": "StrettoModel.Props.C10", "jobs": [acache_job(r"\.(buffer|ret|wait|clear|close|closed)$"), cache_job(r"\.(buffer|ret|wait|clear|close|closed)$", extra=["--w-wait", "10", "--w-close", "3", "--w-clear", "5"])],
            "oracles": [{"name": "flavour-differential", "run": flavour_oracle_for("C10")}, {"name": "live-barrier", "run": live_oracle("C10", ["barrier", "protocol_storm", "async_barrier", "async_protocol_storm", "remove_full", "async_remove_full", "async_clear_ack", "reentrant_callbacks"])}], "assumptions": CACHE_ASSUME},
    "C15": {"module": "StrettoModel.Props.C15", "oracles": [{"name": "live-ring", "run": live_oracle("C15", ["async_ring_accounting", "policy_busy_lookups"])}, {"name": "flavour-differential", "run": flavour_oracle_for("C15")}],
            "jobs": [acache_job(r"\.(ring|metrics|ret|batch)$"), cache_job(r"\.(ring|metrics|ret|batch)$"),
                     {"name": "tinylfu", "driver": "tiny", "fields": r"^tiny\.",
                      "gen": lambda tier, seed: ["sketch", "--seed", str(seed), "--ops", "300" if tier == "quick" else "2000",
                                                 "--lives", "40" if tier == "quick" else "140"],
                      "seeds": {"quick": 1, "thorough": 12}}],
            "branches": ["ring.flush.kept", "ring.flush.dropped_or_closed", "w.items", "get.hit", "get.miss", "getmut.hit", "tiny.est.seen"],
            "assumptions": CACHE_ASSUME + ["what the policy worker does with a kept batch is TinyLFU.increments, the subject of C13; the stepped harness parks the worker so the bounded queue does fill up"]},
    "C19": {"module": "StrettoModel.Props.C19", "jobs": [acache_job(r".*"), cache_job(r".*", quick_lives=8)],
            "oracles": [{"name": "flavour-differential", "run": flavour_oracle},
                        {"name": "live-async", "run": live_oracle("C19", ["async_barrier", "async_remove_full", "async_invariants", "async_protocol_storm", "async_clear_burst", "async_ring_accounting", "async_sweep_race", "async_sweep_under_traffic", "async_clear_ack", "async_sweep_refresh_race"])}],
            "assumptions": CACHE_ASSUME + ["AsyncCache is tied to the model by its own stepped traces (acache job: tokio current-thread runtime, composite steps a.drain / a.wait / a.clear / a.close whose unobserved sub-steps are replayed muted) and through Cache: the same scripted histories (quiescence after every operation, virtual clock, equal sketch seeds) are run against both and every observable compared; executors sampled: thread-per-task, tokio multi-thread, tokio current-thread",
                                           "the gets_kept / gets_dropped split and the queue length legitimately differ (bounded 3 vs unbounded) and are masked; their sum is compared"]},
    "C17": {"module": "StrettoModel.Props.C17", "jobs": [acache_job(r"\.(metrics|life|policy|ret)$"), cache_job(r"\.(metrics|life|policy|ret)$", extra=["--w-clear", "4"]), policy_job(r"^pol\..*(metrics|state)$"),
                     {"name": "hist", "driver": "hist", "fields": r".*",
                      "gen": lambda tier, seed: ["hist", "--seed", str(seed), "--ops", "200" if tier == "quick" else "600", "--lives", "30" if tier == "quick" else "120"],
                      "seeds": {"quick": 1, "thorough": 6}}],
            "oracles": [{"name": "flavour-differential", "run": flavour_oracle_for("C17")}, {"name": "live-invariants", "run": live_oracle("C17", ["invariants", "async_invariants", "metrics_contention"])}],
            "branches": ["h.update.first", "h.update.last", "h.update.inner", "h.update.on_bound", "h.clear", "get.hit", "get.miss", "getmut.hit", "getmut.miss", "get.closed", "insert.dropped", "padd.room", "padd.evicting", "padd.rejected", "padd.already_charged", "p.item.update", "delete.resident", "tick.reclaimed", "p.clear.buf1"],
            "assumptions": CACHE_ASSUME + ["the 256 stripes of each counter are summed into one u64 total in the model; every law is proved modulo 2^64 (equality whenever the true quantities fit)",
                                           "ratio() is f64 arithmetic on hits and misses and is compared on the implementation's own output, not proved; in the modelled code no admission is ever tracked (F14), so the cache never feeds the life-expectancy histogram: the histogram type itself (Histogram::new/update/clear/mean/percentile/Display, integer-valued bounds) is modelled, proved (count = sum of buckets, bucket of a sample) and tied by its own trace job through the public API",
                                           "Histogram::clone shares the bucket vector with the original while copying count (a snapshot returned by life_expectancy_seconds() can therefore disagree with its own buckets after a later update of the live histogram); unreachable through the cache because of F14; recorded as observation O6"]},
    "C18": {"module": "StrettoModel.Props.C18",
            "jobs": [acache_job(r"\.(store|ret|callbacks)$", extra=["--collisions", "1"]), cache_job(r"\.(store|ret|callbacks)$", extra=["--collisions", "1"], quick_lives=14),
                     {"name": "keys", "driver": "keys", "gen": lambda tier, seed: ["keys", "--seed", str(seed), "--ops", "300" if tier == "quick" else "5000"],
                      "seeds": {"quick": 1, "thorough": 4}}],
            "oracles": [{"name": "live-keys", "run": live_oracle("C18", ["transparent_keys"])}],
            "branches": ["key.i8.neg", "key.i16.neg", "key.i64.neg", "key.u64.nonneg", "keystr", "delete.other_conflict", "get.conflict_miss", "iip.vetoed_or_conflict"],
            "assumptions": CACHE_ASSUME + ["seahash/xxh64 and std's Hash for String/&str are not modelled: determinism and String/&str agreement are sampled by the harness"]},
    "C20": {"module": "StrettoModel.Props.C20",
            "jobs": [acache_job(r".*"), cache_job(r".*", name="config-sweep", extra=["--sweep", "1"], quick_ops=60, quick_lives=70, thorough_ops=150, thorough_lives=140, seeds={"quick": 1, "thorough": 8}),
                     cache_job(r".*", quick_lives=10)],
            "branches": ["finalize.ok", "finalize.InvalidNumCounters", "finalize.InvalidMaxCost", "finalize.InvalidBufferSize", "padd.evicting", "tick.reclaimed", "ring.flush.kept"],
            "oracles": [{"name": "live-completion", "run": live_oracle("C20", ["ttl_mix", "protocol_storm", "tiny_cleanup_interval", "ring_contention", "reentrant_callbacks"])}], "assumptions": CACHE_ASSUME},
    "C09": {
        "module": "StrettoModel.Props.C09",
        "oracles": [{"name": "flavour-differential", "run": flavour_oracle_for("C09")}, {"name": "live-validator-race", "run": live_oracle("C09", ["validator_race", "iip_race"])}],
            "jobs": [acache_job(r"\.(store|expiry|ret|callbacks|buffer)$", extra=["--w-ttl", "60"]), cache_job(r"\.(store|expiry|ret|callbacks|buffer)$", extra=["--w-ttl", "50"])],
        "branches": ["iip.absent", "iip.expired", "iip.update", "iip.vetoed_or_conflict", "insert.update", "insert.new_over_resident"],
        "assumptions": CACHE_ASSUME + ["validators are table-driven (always, never, new>old, same parity); the theorems quantify over every predicate"],
    },
    "C11": {
        "module": "StrettoModel.Props.C11",
        "oracles": [{"name": "live-clear-burst", "run": live_oracle("C11", ["clear_burst", "async_clear_burst", "clear_held_ref", "async_clear_ack", "double_clear", "iip_race", "clear_after_removes"])}, {"name": "flavour-differential", "run": flavour_oracle_for("C11")}],
            "jobs": [acache_job(r"\.(store|expiry|policy|buffer|metrics|ret|callbacks|len|clear)$"), cache_job(r"\.(store|expiry|policy|buffer|metrics|ret|callbacks|len|clear)$", extra=["--w-clear", "8", "--w-ttl", "40"])],
        "branches": ["clear.blocked.buf0", "clear.blocked.buf1", "clear.blocked.buf2", "p.clear.buf0", "p.clear.buf1", "p.clear.buf2", "ret.clear"],
        "assumptions": CACHE_ASSUME,
    },
    "C12": {
        "module": "StrettoModel.Props.C12",
        "jobs": [acache_job(r"\.(closed|ret|buffer|store|policy|close|wait|clear)$"), cache_job(r"\.(closed|ret|buffer|store|policy|close|wait|clear)$", extra=["--w-close", "4", "--w-wait", "5"], quick_lives=30)],
        "oracles": [{"name": "flavour-differential", "run": flavour_oracle_for("C12")}, {"name": "live-close", "run": live_oracle("C12", ["close_race", "workers_exit", "protocol_storm", "async_protocol_storm", "reentrant_callbacks"])}],
        "branches": ["close.blocked", "close.ok", "p.stop", "w.stop", "ret.close", "insert.closed", "get.closed", "remove.closed", "wait.ok", "clear.ok.buf0"],
        "assumptions": CACHE_ASSUME + ["that the OS threads of the workers are gone after close()/drop is observed by the live-mode job, not proved"],
    },
    "C16": {
        "module": "StrettoModel.Props.C16",
        "oracles": [{"name": "flavour-differential", "run": flavour_oracle_for("C16")}],
            "jobs": [acache_job(r"\.(policy|callbacks|store)$"), cache_job(r"\.(policy|callbacks|store)$")],
        "branches": ["padd.room", "padd.evicting", "padd.rejected", "padd.oversize", "padd.already_charged", "p.item.update", "tick.reclaimed"],
        "assumptions": CACHE_ASSUME + ["Dom: cost + item_size does not overflow i64",
                                       "guard of admission_victim_reports_charge, checked by the driver on every observed iteration of the eviction loop: the entries appended to the sample are a valid fill_sample result for the current bookkeeping (RefillsOk = Lfu.validRefill at each iteration)"],
    },
    "C01": {
        "module": "StrettoModel.Props.C01",
        "jobs": [policy_job(r"^pol\.(add|add\.state|remove|update|clear|maxcost|cost|cap)$"),
                 acache_job(r"\.(policy)$", quick_lives=8), cache_job(r"\.(policy)$", quick_lives=14)],
        "oracles": [{"name": "live-invariants", "run": live_oracle("C01", ["invariants", "async_invariants", "sweep_refresh_race", "async_sweep_refresh_race"])}],
        "branches": POLICY_BRANCHES,
        "assumptions": [
            "i64 costs are modelled by unbounded Int under Dom: costs >= 0 and no i64 overflow of cost + item_size or of the running sum",
            "every LFUPolicy method holds the policy mutex for its whole body, so thread schedules reduce to sequences of method calls; update_max_cost's atomic store racing an add in progress is modelled as before-or-after",
            "HashMap iteration order and sketch estimates enter the model as oracle inputs observed from the implementation (guards checked by the driver)",
            "cache-level monitor: after every admission of a new key the charges the applied items asked for (C16's formula, per key) fit in max_cost; stepped Cache and AsyncCache traces",
        ],
    },
    "C07": {
        "module": "StrettoModel.Props.C07",
        "jobs": [policy_job(r"^pol\.(add|add\.state)$"), cache_job(r"^p\.item\.(policy|callbacks|store|len)$", quick_lives=14)],
        "branches": POLICY_BRANCHES + ["padd.evicting", "padd.rejected", "padd.room"],
        "assumptions": [
            "popularity estimates are an arbitrary function in the theorems; the implementation's values are observed inside the loop through the cfg-gated observer (estimates of every sample entry and of the newcomer)",
            "what fill_sample appends at each iteration is an oracle input (HashMap iteration order), checked against the guard validRefill by the driver",
            "termination of the loop is proved (loop_terminates) for refills that satisfy RefillsOk, the guard the driver checks on every observed iteration",
        ],
    },
    "C13": {
        "module": "StrettoModel.Props.C13",
        "jobs": [
            {"name": "sketch", "driver": "tiny",
             "gen": lambda tier, seed: ["sketch", "--seed", str(seed), "--ops", "300" if tier == "quick" else "2000",
                                        "--lives", "40" if tier == "quick" else "140"],
             "seeds": {"quick": 1, "thorough": 12}},
            # the estimator as the cache builders configure it (both flavours, both setter orders)
            acache_job(r"^c\.init\.", quick_lives=10), cache_job(r"^c\.init\.", quick_ops=40, quick_lives=24),
        ],
        "oracles": [{"name": "live-policy-busy", "run": live_oracle("C13", ["policy_busy_lookups"])}],
        "branches": ["row.get", "row.inc", "row.reset", "tiny.inc.reset", "tiny.inc.sketch", "tiny.inc.doorkeeper",
                     "tiny.clear", "tiny.est.unseen", "tiny.est.seen", "tiny.est.saturated"],
        "assumptions": [
            "hashes are arbitrary naturals in the theorems; the implementation's u64 arithmetic (xor, and, shifts) is tied to the model's by the correspondence check, exhaustively at byte level for CountMinRow (all 256 byte values x both nibbles)",
            "seeds, mask, row width, Bloom exponent/probe count and `samples` are read from the live TinyLFU on every run; theorems quantify over all of them under mask < 2*width, depth >= 1, k >= 1",
        ],
    },
    "C14": {
        "module": "StrettoModel.Props.C14",
        "jobs": [
            {"name": "bloom", "driver": "tiny",
             "gen": lambda tier, seed: ["bloom", "--seed", str(seed), "--ops", "200" if tier == "quick" else "800",
                                        "--lives", "30" if tier == "quick" else "100"],
             "seeds": {"quick": 1, "thorough": 10}},
        ],
        "oracles": [{"name": "false-positive-rate", "run": bloom_fp_oracle}],
        "branches": ["bloom.add", "bloom.coa.added", "bloom.coa.present", "bloom.has.true", "bloom.has.false", "bloom.reset"],
        "assumptions": [
            "the false-positive clause is decided by the structural theorems (exact probe addressing, all 2^exp bits usable, <= n*k bits set) plus a measurement on the real filter with uniformly mixed hashes (FP <= 3p + 4 sigma), which is a test, not a proof",
            "f64 sizing (calc_size_by_wrong_positives) is not modelled: (exp, k) are read from the live filter",
            "a little-endian target (the byte-pointer addressing of set/is_set is compared at bit level with the Vec<u64>)",
        ],
    },
}
